"""pyvc symbolic executor / verification-condition generator.

Forward symbolic execution of the *real* function bodies (parsed from /repo on every
run), path by path.  Calls are cut at the callee's contract, loops at their invariant.
Every potential run-time exception of the subset (IndexError of a subscript,
ValueError of min() on an empty sequence, OverflowError of int(inf), explicit raise,
exception declared by a callee contract) is a *path*, never an assumption.
"""
from __future__ import annotations

import ast
import copy
from dataclasses import dataclass, field

import z3

from . import solve
from .frontend import Program, FuncInfo
from .values import (
    forall, I,
    ANY, BOOL, FUNC, INT, NONE, STR, XINT, LIST, OPT, REF, SET, TUPLE, UNION, Ty, Val, VNONE,
    Heap, fresh, from_int, to_int, vbool, vint, vlist, vref, vxint, I, B, CALLREF,
)


class OutsideSubset(Exception):
    """The function uses a construct pyvc does not model: the run refuses to answer
    for this function (reported as drift, decided by the bounded twin)."""


class ContractError(Exception):
    pass


BUILTIN_EXC = {
    "Exception": None,
    "IndexError": "Exception",
    "KeyError": "Exception",
    "ValueError": "Exception",
    "TypeError": "Exception",
    "ZeroDivisionError": "Exception",
    "OverflowError": "Exception",
    "StopIteration": "Exception",
    "AttributeError": "Exception",
    "JobShopLibError": "Exception",
    "ValidationError": "JobShopLibError",
    "UninitializedAttributeError": "JobShopLibError",
    "NoSolutionFoundError": "JobShopLibError",
}


def exc_matches(exc, handler):
    e = exc
    while e is not None:
        if e == handler:
            return True
        e = BUILTIN_EXC.get(e)
    return handler in ("Exception", "BaseException")


class Frame:
    """What a function / loop may modify among the locations that existed on entry.
    Fresh objects and lists (reference >= alloc on entry) may always be written.

    fields        name -> list of object terms | "ALL" | callable(x) -> Bool
    lists         core-region lists: list of terms | callable(l) -> Bool | None
    olists        observer-region lists: list of terms | "ALL" | callable | None
    alloc_objects False | True | [field names]: the callee creates objects; the named
                  fields (all if True) may have new values at fresh references
    alloc_lists   the callee allocates core-region lists
    keep_facts    callable(h_before, h_after) -> [z3]: explicit (prenexed) statement of
                  what the generic core-list frame implies; assumed by callers instead
    allocates     convenience: True = objects (all fields) + lists; "lists" = lists only
    """

    def __init__(self, fields=None, lists=None, olists=None, alloc_objects=False, alloc_lists=False,
                 keep_facts=None, allocates=False, alloc_olists=False):
        self.fields = dict(fields or {})
        self.lists = lists
        self.olists = olists
        self.alloc_objects = alloc_objects
        self.alloc_lists = alloc_lists
        self.alloc_olists = alloc_olists  # the callee allocates observer-region lists
        self.keep_facts = keep_facts
        if allocates is True:
            self.alloc_objects = True
            self.alloc_lists = True
        elif allocates == "lists":
            self.alloc_lists = True

    @property
    def bumps_alloc(self):
        return bool(self.alloc_objects or self.alloc_lists or self.alloc_olists or self.olists is not None)

    def list_pred(self, l):
        if self.lists is None:
            return z3.BoolVal(False)
        if callable(self.lists):
            return self.lists(l)
        if not self.lists:
            return z3.BoolVal(False)
        return z3.Or([l == x for x in self.lists])

    def olist_pred(self, l):
        if self.olists is None:
            return z3.BoolVal(False)
        if isinstance(self.olists, str) and self.olists == "ALL":
            return z3.BoolVal(True)
        if callable(self.olists):
            return self.olists(l)
        if not self.olists:
            return z3.BoolVal(False)
        return z3.Or([l == x for x in self.olists])

    def field_pred(self, name, x):
        objs = self.fields.get(name)
        if objs is None:
            return z3.BoolVal(False)
        if isinstance(objs, str) and objs == "ALL":
            return z3.BoolVal(True)
        if callable(objs):
            return objs(x)
        if not objs:
            return z3.BoolVal(False)
        return z3.Or([x == o for o in objs])


PURE = Frame()


class Ctx:
    """What a contract clause sees: pre heap h0, current/post heap h, argument values,
    result."""

    def __init__(self, eng, h0, h, args, res=None, extra=None):
        self.eng = eng
        self.h0 = h0
        self.h = h
        self.args = args
        self.res = res
        self.extra = extra or {}

    def __getitem__(self, name):
        v = self.args[name]
        return v.t

    def val(self, name):
        return self.args[name]

    @property
    def result(self):
        return self.res.t if self.res is not None else None


class LoopCtx(Ctx):
    def __init__(self, eng, h0, h, args, env, i, n, hl, envl, getitem, outer=()):
        super().__init__(eng, h0, h, args)
        self.outer = list(outer)  # index terms of the enclosing loops, innermost last
        self.env = env
        self.i = i
        self.n = n
        self.hl = hl
        self.envl = envl
        self.getitem = getitem

    def v(self, name):
        return self.env[name].t

    def vl(self, name):
        return self.envl[name].t


@dataclass
class LoopSpec:
    header: str
    invariant: object = None  # callable(LoopCtx) -> list[(name, z3 Bool)]
    modifies: object = None  # callable(LoopCtx) -> Frame
    decreases: object = None  # callable(LoopCtx) -> z3 Int   (while loops)


class Contract:
    """Base class of sidecar contracts.  Subclasses set `name` (qualified name in the
    program), optionally `params`/`ret` type overrides, and override the clauses."""

    name = ""
    params: dict = {}
    ret: Ty | None = None
    loops: dict = {}
    pure = False  # no heap effect at all, no allocation
    abstract = False  # no body to verify (interface / trusted)
    trusted = False
    properties: tuple = ()  # which properties' proofs use this contract

    def requires(self, c):
        return []

    def raises(self, c):
        """[(ExceptionName, label, when)] evaluated in the pre-state."""
        return []

    def ensures(self, c):
        return []

    def exc_modifies(self, c, exc):
        """What may have changed when the function leaves with exception `exc`.
        Default: nothing that existed on entry (C09: rejected requests change nothing)."""
        return PURE

    def exc_ensures(self, c, exc):
        return []

    def modifies(self, c):
        return PURE

    def ghost(self, c, st):
        """Ghost update applied to the final state (st.heap) of every normal path when
        the body is verified; callers learn about it through `ensures`/`modifies`.
        May only write ghost fields (names starting with `$`)."""
        return None


class State:
    def __init__(self, env, heap, pc):
        self.aux = {}
        self.tags = {}  # index in pc -> clause name
        self.env = env
        self.heap = heap
        self.pc = pc
        self.status = "run"
        self.value = None
        self.exc = None
        self.pure = None
        self.qstack = []  # index variables of the enclosing quantified (generator) evaluations

    def copy(self):
        s = State(dict(self.env), self.heap, list(self.pc))
        s.status = self.status
        s.value = self.value
        s.exc = self.exc
        s.pure = self.pure
        s.qstack = list(self.qstack)
        s.aux = dict(self.aux)
        s.tags = dict(self.tags)
        return s

    def assume(self, fact, tag=None):
        """tag = name of the contract clause / invariant conjunct the fact comes from (None for
        path facts); used to hide hypotheses an obligation does not need"""
        if z3.is_true(fact):
            return
        self.pc.append(fact)
        if tag is not None:
            self.tags[len(self.pc) - 1] = tag


@dataclass
class Obligation:
    name: str
    kind: str
    function: str
    file: str
    line: int
    pc: list
    goal: object
    detail: str = ""
    heaps: dict = field(default_factory=dict)  # for model decoding
    result: object = None
    tags: dict = field(default_factory=dict)


class IterView:
    """range / enumerate / reversed / zip / list viewed as an indexable sequence."""

    def __init__(self, n, get, base_list=None):
        self.n = n
        self.get = get  # (heap, j) -> Val
        self.base_list = base_list


class Closure:
    def __init__(self, node, env, qualname=None):
        self.node = node
        self.env = env
        self.qualname = qualname


class FStr:
    """structure of an f-string value: [("lit", text) | ("val", Val, format spec)]"""

    def __init__(self, parts):
        self.parts = parts


class AbstractCallable:
    """A callable value whose behaviour is only known through an abstract contract."""

    def __init__(self, contract_name, method_name=None):
        self.contract_name = contract_name
        self.method_name = method_name


def is_lit_true(t):
    return z3.is_true(z3.simplify(t))


def is_lit_false(t):
    return z3.is_false(z3.simplify(t))


class Engine:
    def __init__(self, program: Program, registry: dict, field_types: dict, callable_fields=None):
        self.prog = program
        self.reg = registry
        self.field_types = field_types
        self.callable_fields = callable_fields or {}
        self.obligations: list[Obligation] = []
        self.cur: Contract | None = None
        self.cur_fi: FuncInfo | None = None
        self.h0 = None
        self.args0 = None
        self.loop_ordinal = 0
        self.notes: list[str] = []
        self.max_paths = 400

    # ------------------------------------------------------------------ utils
    def oblige(self, st, name, goal, kind, node=None, detail=""):
        line = getattr(node, "lineno", self.cur_fi.line if self.cur_fi else 0)
        ob = Obligation(
            name=f"{self.cur.name}:{name}",
            kind=kind,
            function=self.cur.name,
            file=self.cur_fi.file if self.cur_fi else "",
            line=line,
            pc=list(st.pc),
            goal=goal,
            detail=detail,
            heaps={"h0": self.h0, "h": st.heap, "args": self.args0},
            tags=dict(st.tags),
        )
        self.obligations.append(ob)
        return ob

    def field_ty(self, cls, name):
        for c in self.prog.mro(cls) if cls else []:
            k = f"{c}.{name}"
            if k in self.field_types:
                return self.field_types[k]
        if name in self.field_types:
            return self.field_types[name]
        raise OutsideSubset(f"no declared type for field {cls}.{name}")

    def ty_from_ann(self, node) -> Ty:
        if node is None:
            return ANY
        if isinstance(node, ast.Constant):
            if node.value is None:
                return NONE
            if isinstance(node.value, str):
                return self.ty_from_ann(ast.parse(node.value, mode="eval").body)
        if isinstance(node, ast.Name):
            n = node.id
            if n in ("int", "float"):
                return INT
            if n == "bool":
                return BOOL
            if n == "str":
                return ANY
            if n in ("Any", "object", "dict"):
                return ANY
            if n in self.prog.classes and self.is_enum_class(n):
                return Ty("enum", n)
            if n in self.prog.classes:
                return REF(n)
            if n in ("Callable", "ReadyOperationsFilter"):
                return CALLREF()
            return ANY
        if isinstance(node, ast.Subscript):
            base = ast.unparse(node.value)
            if base in ("list", "List", "Sequence", "Iterable"):
                return LIST(self.ty_from_ann(node.slice))
            if base in ("set", "Set"):
                return SET(self.ty_from_ann(node.slice))
            if base in ("Callable",):
                return CALLREF()
            if base in ("type",):
                return Ty("classval")
            if base in ("dict", "Dict"):
                return ANY
            if base in ("tuple", "Tuple"):
                sl = node.slice
                elts = sl.elts if isinstance(sl, ast.Tuple) else [sl]
                return TUPLE(*[self.ty_from_ann(e) for e in elts])
            if base in ("Deque", "deque"):
                return Ty("deque", self.ty_from_ann(node.slice))
            return ANY
        if isinstance(node, ast.BinOp) and isinstance(node.op, ast.BitOr):
            l = self.ty_from_ann(node.left)
            r = self.ty_from_ann(node.right)
            if r.kind == "none":
                return l if l.kind in ("ref", "list", "any", "func", "callref") else OPT(l)
            if l.kind == "none":
                return r if r.kind in ("ref", "list", "any", "func", "callref") else OPT(r)
            if l.kind == "callref" or r.kind == "callref":
                return CALLREF()
            if l.kind == "int" and r.kind in ("list", "tuple"):
                return UNION(l, r)
            if {l.kind, r.kind} == {"ref", "int"}:
                return UNION(l, r)
            return l
        if isinstance(node, ast.Attribute):
            return ANY
        return ANY

    def fresh_val(self, ty: Ty, name, st=None, nonnull=True) -> Val:
        k = ty.kind
        if k == "int":
            return Val(INT, fresh(name))
        if k == "bool":
            return Val(BOOL, fresh(name, B))
        if k == "dict":
            return Val(ty, (fresh(name + "_has", z3.ArraySort(I, B)), fresh(name + "_val", z3.ArraySort(I, I))))
        if k == "enum":
            return Val(ty, fresh(name))
        if k in ("ref", "list", "any", "deque", "ext"):
            t = fresh(name)
            if st is not None:
                st.assume(t < st.heap.alloc)
                st.assume(t > 0 if nonnull else t >= 0)
                if self.h0 is None or st.heap.alloc.eq(self.h0.alloc):
                    st.heap.mark_old(t)
            return Val(ty, t)
        if k == "xint":
            return Val(XINT, fresh(name), fresh(name + "_inf", B))
        if k == "opt":
            inner = self.fresh_val(ty.arg, name, st)
            return Val(ty, inner, fresh(name + "_none", B))
        if k == "none":
            return VNONE
        if k == "func":
            return Val(FUNC, AbstractCallable(f"param:{name}"))
        if k == "callref":
            t = fresh(name)
            if st is not None:
                st.assume(t >= 0)
            return Val(ty if ty.arg else CALLREF(f"param:{name.split('_h')[0]}"), t)
        if k == "classval":
            return Val(ty, fresh(name + "_cls"))
        if k == "tuple":
            return Val(ty, [self.fresh_val(t, f"{name}_{i}", st) for i, t in enumerate(ty.items)])
        if k == "union":
            return Val(ty, (fresh(name + "_isfirst", B), self.fresh_val(ty.items[0], name + "_a", st),
                            self.fresh_val(ty.items[1], name + "_b", st)))
        if k == "set":
            return Val(ty, fresh(name, z3.ArraySort(I, B)))
        if k == "str":
            return Val(STR, None)
        raise OutsideSubset(f"cannot make a symbolic value of type {ty}")

    def feasible(self, st, cond=None):
        if cond is not None:
            if is_lit_false(cond):
                return False
        return solve.feasible(st.pc, cond)

    # ----------------------------------------------------------- verification
    def param_types(self, fi: FuncInfo, contract: Contract):
        out = {}
        a = fi.node.args
        allargs = list(a.posonlyargs) + list(a.args) + list(a.kwonlyargs)
        for i, arg in enumerate(allargs):
            if arg.arg in contract.params:
                out[arg.arg] = contract.params[arg.arg]
            elif i == 0 and fi.cls and fi.kind in ("method", "property", "setter", "cached_property"):
                out[arg.arg] = REF(fi.cls)
            elif i == 0 and fi.kind == "classmethod":
                out[arg.arg] = ANY
            else:
                out[arg.arg] = self.ty_from_ann(arg.annotation)
        if a.kwarg:
            out[a.kwarg.arg] = ANY
        if a.vararg:
            out[a.vararg.arg] = ANY
        # keyword arguments that travel through **kwargs and that the contract speaks about
        for nm, ty in (getattr(contract, "extra_params", None) or {}).items():
            out[nm] = ty
        return out

    @staticmethod
    def nullable_params(fi: FuncInfo):
        """parameters whose annotation mentions None or whose default is None"""
        a = fi.node.args
        out = set()
        pos = list(a.posonlyargs) + list(a.args)
        for arg, d in zip(pos[len(pos) - len(a.defaults):], a.defaults):
            if isinstance(d, ast.Constant) and d.value is None:
                out.add(arg.arg)
        for arg, d in zip(a.kwonlyargs, a.kw_defaults):
            if isinstance(d, ast.Constant) and d.value is None:
                out.add(arg.arg)
        for arg in pos + list(a.kwonlyargs):
            if arg.annotation is not None and "None" in ast.unparse(arg.annotation):
                out.add(arg.arg)
        return out

    def verify(self, contract: Contract):
        """Generates the obligations of one function under contract."""
        fi = self.prog.lookup(getattr(contract, "source", None) or contract.name.split("$")[0])
        if fi is None:
            raise ContractError(f"contract target {contract.name} not found in the program")
        self.cur = contract
        self.cur_fi = fi
        self.loop_ordinal = 0
        self.loop_ids = {}
        self.check_decorators(contract, fi)
        start = len(self.obligations)
        h0 = Heap(tag="0")
        self.h0 = h0
        st = State({}, h0, [])
        st.assume(h0.alloc > 0)
        ptypes = self.param_types(fi, contract)
        args = {}
        nullable = self.nullable_params(fi)
        for name, ty in ptypes.items():
            if fi.kind == "classmethod" and name == list(ptypes)[0] and name not in contract.params:
                args[name] = Val(Ty("class", fi.cls), fi.cls)     # `cls`: the class the method is defined in
                continue
            args[name] = self.fresh_val(ty, name, st, nonnull=name not in nullable)
        # arguments have (a subclass of) their annotated class; `self` by method dispatch
        for name, v in args.items():
            if isinstance(v, Val) and v.ty.kind == "ref" and v.ty.arg in self.prog.classes:
                subs = [c for c in self.prog.classes if self.prog.is_subclass(c, v.ty.arg)]
                tag = h0.get("$type", v.t)
                st.assume(z3.Or(v.t == 0, *[tag == self.class_id(c) for c in subs]))
        if hasattr(contract, "setup"):
            contract.setup(self, st, args)
        self.h0 = h0
        self.args0 = args
        st.env = dict(args)
        c0 = Ctx(self, h0, h0, args)
        for nm, p in contract.requires(c0):
            st.assume(p, nm)
        # vacuity guard: the precondition must be satisfiable
        self.cover_pc = list(st.pc)
        self.anchors_hit = set()
        entry = getattr(contract, "ghost_entry", None)
        if entry is not None:
            # ghost code at function entry: ghost locals (`$name`), ghost calls of pure verified
            # functions through their contracts, instances of proved lemmas
            entry(c0, st)
        finals = self.exec_block(fi.body(), st)
        for key in getattr(contract, "ghost_after", {}) or {}:
            if key not in self.anchors_hit:
                raise OutsideSubset(f"drift: ghost anchor `{key}` not found in {contract.name}")
        raise_specs = contract.raises(c0)
        nret = 0
        self.canary_pc = None
        for f in finals:
            if f.status in ("run", "ret"):
                nret += 1
                if self.canary_pc is None:
                    self.canary_pc = list(f.pc)
                res = f.value if f.status == "ret" and f.value is not None else VNONE
                if res.ty.kind == "cacheval" and contract.ret is not None:
                    res = from_int(contract.ret, res.t[1])   # a cached entry returned as the method's result
                if res.ty.kind == "emptydict" and contract.ret is not None and contract.ret.kind == "dict":
                    res = self.as_dict(res)
                if res.ty.kind == "opt" and contract.ret is not None and contract.ret.kind not in ("opt", "none"):
                    # an Optional value returned where the contract promises a value
                    self.oblige(f, "returns-a-value-not-None", z3.Not(res.aux), "post")
                    f.assume(z3.Not(res.aux))
                    res = res.t
                contract.ghost(Ctx(self, h0, f.heap, args, res), f)
                hfin = f.heap
                c = Ctx(self, h0, hfin, args, res)
                for exn, label, when in raise_specs:
                    self.oblige(f, f"no-raise-cond:{exn}:{label}", z3.Not(when), "post",
                                detail="normal return although the contract says this request raises")
                for nm, p in contract.ensures(c):
                    ob = self.oblige(f, f"ensures:{nm}", p, "post")
                    ob.heaps["recheck"] = (contract, h0, hfin, args, nm)
                self.frame_obligations(f, h0, hfin, contract.modifies(c0), "frame")
            elif f.status == "raise":
                exn, node = f.exc
                whens = [w for (e, _, w) in raise_specs if exc_matches(exn, e)]
                goal = z3.Or(whens) if whens else z3.BoolVal(False)
                self.oblige(f, f"raises-only-when:{exn}@{getattr(node, 'lineno', 0)}", goal, "exc", node,
                            detail=f"{exn} raised at line {getattr(node, 'lineno', 0)} outside the declared conditions")
                if not whens:
                    # undeclared exception: the single obligation is that the path is infeasible
                    continue
                c = Ctx(self, h0, f.heap, args, None)
                self.frame_obligations(f, h0, f.heap, contract.exc_modifies(c0, exn),
                                       f"exc-unchanged:{exn}@{getattr(node, 'lineno', 0)}")
                for nm, p in contract.exc_ensures(c, exn):
                    self.oblige(f, f"exc-ensures:{exn}:{nm}", p, "exc", node)
            else:
                raise OutsideSubset(f"path left {contract.name} with status {f.status}")
        return self.obligations[start:], {"paths": len(finals), "normal_paths": nret}

    MODELLED_DECORATORS = ("property", "staticmethod", "classmethod", "functools.cached_property", "cached_property",
                           "abc.abstractmethod", "abstractmethod", "wraps(method)", "functools.wraps(method)")

    def check_decorators(self, contract, fi):
        """A decorator changes what callers run.  The ones with a model: property / cached_property /
        staticmethod / classmethod / abstractmethod / x.setter (calling conventions), and
        @_dispatcher_cache for the query contracts (`q$raw` = the body, `q` = the wrapper composed with
        it).  Anything else means the contract no longer describes the callable: drift, decided by the
        bounded run.  The set of cached query names must be the one the cache model was written for."""
        own = contract.name.split("$")[0]
        target = self.prog.lookup(own) if getattr(contract, "source", None) else fi
        for d in (target.decorators if target else []):
            if d in self.MODELLED_DECORATORS or d.endswith(".setter"):
                continue
            if d.endswith("_dispatcher_cache") and (contract.name.endswith("$raw") or getattr(contract, "source", "") ==
                                                    "_dispatcher_cache.wrapper"):
                continue
            raise OutsideSubset(f"drift: decorator @{d} on {own} is not covered by its contract")
        expected = getattr(self, "expected_cache_keys", None)
        if expected is not None and (fi.cls == "Dispatcher" or fi.qualname.startswith("_dispatcher_cache")):
            if set(self.cache_keys()) != set(expected):
                raise OutsideSubset("drift: the methods decorated with @_dispatcher_cache are "
                                    f"{self.cache_keys()}, the cache model was written for {sorted(expected)}")

    def frame_obligations(self, st, h0, h1, frame: Frame, prefix):
        x = fresh("fx")
        names = sorted(set(h0.field_names()) | set(h1.field_names()))
        for name in names:
            a0, a1 = h0.farr(name), h1.farr(name)
            if a0.eq(a1):
                continue
            allowed = frame.field_pred(name, x)
            if is_lit_true(allowed):
                continue
            goal = z3.Implies(
                z3.And(x >= 0, x < h0.alloc, z3.Not(allowed)), z3.Select(a1, x) == z3.Select(a0, x)
            )
            self.oblige(st, f"{prefix}:field:{name}", goal, "frame")
        for region in ("c", "o"):
            a0, a1 = h0.arrs(region), h1.arrs(region)
            if all(x.eq(y) for x, y in zip(a0, a1)):
                continue
            l = fresh("fl")
            j = fresh("fj")
            allowed = frame.list_pred(l) if region == "c" else frame.olist_pred(l)
            if is_lit_true(allowed):
                continue
            lr = (l, region)
            goal = z3.Implies(
                z3.And(l > 0, l < h0.alloc, z3.Not(allowed)),
                z3.And(
                    h1.len(lr) == h0.len(lr),
                    z3.Implies(z3.And(j >= 0, j < h0.len(lr)),
                               z3.And(h1.at(lr, j) == h0.at(lr, j), h1.atx(lr, j) == h0.atx(lr, j))),
                ),
            )
            self.oblige(st, f"{prefix}:lists" + ("" if region == "c" else "-observer-region"), goal, "frame")

    # ------------------------------------------------------------ havoc/frames
    def havoc(self, st: State, frame: Frame, hpre: Heap | None = None):
        """New heap equal to st.heap outside `frame` (and outside fresh memory)."""
        h = st.heap
        hpre = hpre or h
        hn = h.copy()
        x = fresh("hx")
        ao = frame.alloc_objects

        def fresh_may_have(name):
            return ao is True or (isinstance(ao, (list, tuple)) and name in ao)

        for name, objs in frame.fields.items():
            a0 = h.farr(name)
            if isinstance(objs, list) and not fresh_may_have(name):
                a1 = a0
                for o in objs:
                    a1 = z3.Store(a1, o, fresh(f"hv_{name}", a0.sort().range()))
                hn.fields[name] = a1
            elif isinstance(objs, str) and objs == "ALL":
                hn.fields[name] = fresh(f"F_{name}", a0.sort())
            else:
                a1 = fresh(f"F_{name}", a0.sort())
                hn.fields[name] = a1
                keep = z3.Not(frame.field_pred(name, x))
                st.assume(forall([x], z3.Implies(z3.And(x < hpre.alloc, keep),
                                                 z3.Select(a1, x) == z3.Select(a0, x)),
                                 patterns=[z3.Select(a1, x)]))
        if ao:
            names = h.field_names() if ao is True else list(ao)
            for name in names:
                if name in frame.fields:
                    continue
                a0 = h.farr(name)
                a1 = fresh(f"F_{name}", a0.sort())
                hn.fields[name] = a1
                st.assume(forall([x], z3.Implies(x < hpre.alloc, z3.Select(a1, x) == z3.Select(a0, x)),
                                 patterns=[z3.Select(a1, x)]))
        if frame.bumps_alloc:
            na = fresh("alloc")
            st.assume(na >= h.alloc)
            hn.alloc = na
            hn.mark_alloc(na)
        for region in ("c", "o"):
            spec = frame.lists if region == "c" else frame.olists
            changed = spec is not None and (callable(spec) or isinstance(spec, str) or len(spec) > 0)
            allocs = frame.alloc_lists if region == "c" else frame.alloc_olists
            if not (changed or allocs):
                continue
            Len0, El0, ElX0 = h.arrs(region)
            if isinstance(spec, str) and spec == "ALL":
                hn.mem[region] = (fresh("Len_" + region, Len0.sort()), fresh("El_" + region, El0.sort()),
                                  fresh("ElX_" + region, ElX0.sort()))
                continue
            if isinstance(spec, list) and not allocs:
                Len, El, ElX = Len0, El0, ElX0
                for l in spec:
                    Len = z3.Store(Len, l, fresh("hv_len"))
                    El = z3.Store(El, l, fresh("hv_el", z3.ArraySort(I, I)))
                    ElX = z3.Store(ElX, l, fresh("hv_elx", z3.ArraySort(I, I)))
                hn.mem[region] = (Len, El, ElX)
                continue
            l = fresh("hl")
            Len = fresh("Len_" + region, Len0.sort())
            El = fresh("El_" + region, El0.sort())
            ElX = fresh("ElX_" + region, ElX0.sort())
            hn.mem[region] = (Len, El, ElX)
            if region == "c" and frame.keep_facts is not None:
                for fct in frame.keep_facts(h, hn):
                    st.assume(fct)
                continue
            pred = frame.list_pred(l) if region == "c" else frame.olist_pred(l)
            st.assume(forall([l], z3.Implies(z3.And(l < hpre.alloc, z3.Not(pred)),
                                             z3.And(z3.Select(Len, l) == z3.Select(Len0, l),
                                                    z3.Select(El, l) == z3.Select(El0, l),
                                                    z3.Select(ElX, l) == z3.Select(ElX0, l))),
                             patterns=[z3.Select(Len, l), z3.Select(El, l), z3.Select(ElX, l)]))
        return hn

    # -------------------------------------------------------------- statements
    def exec_block(self, stmts, st: State):
        states = [st]
        for s in stmts:
            nxt = []
            anchors = getattr(self.cur, "ghost_after", None)
            hook = None
            if anchors:
                key = ast.unparse(s)
                hook = anchors.get(key)
                if hook is not None:
                    self.anchors_hit.add(key)
            for cur in states:
                if cur.status != "run":
                    nxt.append(cur)
                else:
                    res = self.exec_stmt(s, cur)
                    if hook is not None:
                        for r in res:
                            if r.status == "run":
                                hook(Ctx(self, self.h0, r.heap, self.args0), r)
                    nxt.extend(res)
            states = nxt
            if len(states) > self.max_paths:
                raise OutsideSubset(f"path explosion (> {self.max_paths}) in {self.cur.name}")
        return states

    def exec_stmt(self, s, st: State):
        m = getattr(self, "st_" + type(s).__name__, None)
        if m is None:
            raise OutsideSubset(f"statement {type(s).__name__} at {self.cur_fi.file}:{s.lineno}")
        return m(s, st)

    def st_Pass(self, s, st):
        return [st]

    def st_Expr(self, s, st):
        if isinstance(s.value, ast.Constant):
            return [st]
        return [r[0] for r in self.ev(s.value, st)]

    def st_Return(self, s, st):
        if s.value is None:
            st.status = "ret"
            st.value = VNONE
            return [st]
        out = []
        for s2, v in self.ev(s.value, st):
            if s2.status == "run":
                s2.status = "ret"
                s2.value = v
            out.append(s2)
        return out

    def st_Raise(self, s, st):
        exc = s.exc
        if exc is None:
            raise OutsideSubset("bare raise")
        name = ast.unparse(exc.func) if isinstance(exc, ast.Call) else ast.unparse(exc)
        name = name.split(".")[-1]
        st.status = "raise"
        st.exc = (name, s)
        return [st]

    def st_Assert(self, s, st):
        out = []
        for s2, v in self.ev(s.test, st):
            if s2.status != "run":
                out.append(s2)
                continue
            b = self.truthy(v, s2)
            self.oblige(s2, f"assert@{s.lineno}", b, "assert", s)
            s2.assume(b)
            out.append(s2)
        return out

    def st_Break(self, s, st):
        st.status = "break"
        return [st]

    def st_Continue(self, s, st):
        st.status = "cont"
        return [st]

    def st_Import(self, s, st):
        return [st]

    st_ImportFrom = st_Import

    def st_FunctionDef(self, s, st):
        q = f"{self.cur_fi.node.name}.{s.name}"
        st.env[s.name] = Val(FUNC, Closure(s, st.env, q))
        return [st]

    def st_If(self, s, st):
        out = []
        for s2, v in self.ev(s.test, st):
            if s2.status != "run":
                out.append(s2)
                continue
            b = self.truthy(v, s2)
            narrow = self.narrowing(s.test, s2)
            bs = z3.simplify(b)
            if z3.is_true(bs):
                branches = [(True, s2)]
            elif z3.is_false(bs):
                branches = [(False, s2)]
            else:
                t_ok = self.feasible(s2, b)
                f_ok = self.feasible(s2, z3.Not(b))
                if t_ok and f_ok:
                    a = s2.copy()
                    a.assume(b)
                    s2.assume(z3.Not(b))
                    branches = [(True, a), (False, s2)]
                elif t_ok:
                    s2.assume(b)
                    branches = [(True, s2)]
                elif f_ok:
                    s2.assume(z3.Not(b))
                    branches = [(False, s2)]
                else:
                    branches = []
            for taken, bst in branches:
                if narrow:
                    nm, by_branch = narrow
                    if by_branch.get(taken) is not None:
                        bst.env[nm] = by_branch[taken]  # unwrap optional / pick the union alternative
                body = s.body if taken else s.orelse
                out.extend(self.exec_block(body, bst))
        return out

    def narrowing(self, test, st):
        """`x is None` / `x is not None` on an optional local, `isinstance(x, T)` / `not isinstance(x, T)`
        on a local of union type: what the local is in each branch.
        Returns (name, {branch truth value: narrowed Val})."""
        if (isinstance(test, ast.Compare) and len(test.ops) == 1 and isinstance(test.left, ast.Name)
                and isinstance(test.comparators[0], ast.Constant) and test.comparators[0].value is None):
            nm = test.left.id
            v = st.env.get(nm)
            if v is not None and v.ty.kind == "opt":
                if isinstance(test.ops[0], ast.Is):
                    return (nm, {False: v.t})
                if isinstance(test.ops[0], ast.IsNot):
                    return (nm, {True: v.t})
        neg = False
        if isinstance(test, ast.UnaryOp) and isinstance(test.op, ast.Not):
            neg, test = True, test.operand
        if (isinstance(test, ast.Call) and isinstance(test.func, ast.Name) and test.func.id == "isinstance"
                and len(test.args) == 2 and isinstance(test.args[0], ast.Name) and isinstance(test.args[1], ast.Name)):
            nm = test.args[0].id
            v = st.env.get(nm)
            if v is not None and v.ty.kind == "union":
                first = self.union_alt_matches(v.ty.items[0], test.args[1].id)
                second = self.union_alt_matches(v.ty.items[1], test.args[1].id)
                if first != second:
                    yes, no = (v.t[1], v.t[2]) if first else (v.t[2], v.t[1])
                    return (nm, {True: no, False: yes} if neg else {True: yes, False: no})
        return None

    @staticmethod
    def union_alt_matches(ty, cname):
        if ty.kind == "ref":
            return ty.arg == cname
        return {"int": ty.kind in ("int", "bool"), "list": ty.kind == "list", "tuple": ty.kind == "tuple",
                "bool": ty.kind == "bool"}.get(cname, False)

    def st_Assign(self, s, st):
        out = []
        for s2, v in self.ev(s.value, st):
            if s2.status != "run":
                out.append(s2)
                continue
            states = [s2]
            for tgt in s.targets:
                nxt = []
                for s3 in states:
                    if s3.status != "run":
                        nxt.append(s3)
                    else:
                        nxt.extend(self.assign(tgt, v, s3))
                states = nxt
            out.extend(states)
        return out

    def st_AnnAssign(self, s, st):
        if s.value is None:
            return [st]
        out = []
        for s2, v in self.ev(s.value, st):
            if s2.status != "run":
                out.append(s2)
                continue
            ann = self.ty_from_ann(s.annotation)

            def refine(vty, aty):
                # the annotation names the element types of a freshly built (empty / nested empty) list
                if vty.kind == "any":
                    return aty
                if vty.kind == "list" and aty.kind == "list":
                    return LIST(refine(vty.arg, aty.arg), vty.region)
                return vty
            if v.ty.kind == "list" and ann.kind == "list":
                v = Val(refine(v.ty, ann), v.t)
            out.extend(self.assign(s.target, v, s2))
        return out

    def st_AugAssign(self, s, st):
        load = copy.copy(s.target)
        load.ctx = ast.Load()
        binop = ast.BinOp(left=load, op=s.op, right=s.value)
        ast.copy_location(binop, s)
        ast.fix_missing_locations(binop)
        out = []
        for s2, v in self.ev(binop, st):
            if s2.status != "run":
                out.append(s2)
                continue
            out.extend(self.assign(s.target, v, s2))
        return out

    def assign(self, tgt, v: Val, st: State):
        if isinstance(tgt, ast.Name):
            st.env[tgt.id] = v
            return [st]
        if isinstance(tgt, (ast.Tuple, ast.List)):
            if v.ty.kind != "tuple":
                raise OutsideSubset("unpacking a non-tuple")
            states = [st]
            for t, item in zip(tgt.elts, v.t):
                nxt = []
                for s3 in states:
                    nxt.extend(self.assign(t, item, s3) if s3.status == "run" else [s3])
                states = nxt
            return states
        if isinstance(tgt, ast.Attribute):
            out = []
            for s2, obj in self.ev(tgt.value, st):
                if s2.status != "run":
                    out.append(s2)
                    continue
                out.extend(self.set_attr(obj, tgt.attr, v, s2, tgt))
            return out
        if isinstance(tgt, ast.Subscript) and isinstance(tgt.value, ast.Name) and tgt.value.id in st.env \
                and st.env[tgt.value.id].ty.kind in ("dict", "emptydict"):
            # dicts are local values: `d[k] = v` rebinds the local
            out = []
            for s2, idx in self.ev(tgt.slice, st):
                if s2.status != "run":
                    out.append(s2)
                    continue
                d = self.as_dict(s2.env[tgt.value.id])
                from .values import DICT
                has, val = d.t
                vty = v.ty if d.ty.arg is None or d.ty.arg.kind == "any" else d.ty.arg
                s2.env[tgt.value.id] = Val(DICT(idx.ty, vty), (z3.Store(has, to_int(idx), z3.BoolVal(True)),
                                                               z3.Store(val, to_int(idx), to_int(v))))
                out.append(s2)
            return out
        if isinstance(tgt, ast.Subscript) and isinstance(tgt.slice, ast.Slice):
            out = []
            for s2, base in self.ev(tgt.value, st):
                if s2.status != "run":
                    out.append(s2)
                    continue
                from .library import EXT_MODELS
                m = EXT_MODELS.get((base.ty.arg, "__setslice__")) if base.ty.kind == "ext" else None
                if m is None or tgt.slice.lower is not None or tgt.slice.upper is not None or tgt.slice.step is not None:
                    raise OutsideSubset(f"slice assignment on {base.ty}")
                out.extend(m(self, tgt, s2, base, v))
            return out
        if isinstance(tgt, ast.Subscript):
            out = []
            for s2, (lst, idx) in self.ev_many([tgt.value, tgt.slice], st):
                if s2.status != "run":
                    out.append(s2)
                    continue
                out.extend(self.set_item(lst, idx, v, s2, tgt))
            return out
        raise OutsideSubset(f"assignment target {type(tgt).__name__}")

    def objdict_value(self, h, d: Val, key):
        owner, attr = d.t
        return Val(TUPLE(*d.ty.items), [from_int(it, z3.Select(h.get(f"$${attr}#v{c_}", owner), key))
                                        for c_, it in enumerate(d.ty.items)])

    def objdict_view(self, st, d: Val, what):
        """items() / keys() / values() of a field dict, in insertion order"""
        owner, attr = d.t
        keys = Val(LIST(ANY), st.heap.get(f"{attr}#keys", owner))
        n = st.heap.len(keys)

        def get(h, j):
            k = h.at(keys, j)
            kv = Val(REF(d.ty.arg) if d.ty.arg else ANY, k)
            if what == "keys":
                return kv
            val = self.objdict_value(h, d, k)
            return val if what == "values" else Val(TUPLE(kv.ty, val.ty), [kv, val])
        return IterView(n, get)

    def as_dict(self, v: Val) -> Val:
        """a local dict value; `{}` is the empty one"""
        if v.ty.kind == "dict":
            return v
        if v.ty.kind == "emptydict":
            from .values import DICT
            return Val(DICT(ANY, ANY), (z3.K(I, z3.BoolVal(False)), z3.K(I, z3.IntVal(0))))
        raise OutsideSubset(f"{v.ty} used as a dict")

    def set_attr(self, obj: Val, attr, v: Val, st: State, node):
        if obj.ty.kind == "ext":
            from .library import EXT_MODELS
            m = EXT_MODELS.get((obj.ty.arg, "=" + attr))
            if m is None:
                raise OutsideSubset(f"no trusted contract for assigning {obj.ty.arg}.{attr}")
            return m(self, node, st, obj, v)
        if obj.ty.kind != "ref":
            raise OutsideSubset(f"attribute store on {obj.ty}")
        cls = obj.ty.arg
        setter = self.prog.find_setter(cls, attr)
        if setter is not None:
            con = self.reg.get(setter.qualname)
            if con is None:
                raise OutsideSubset(f"no contract for setter {setter.qualname}")
            return [r[0] for r in self.apply_contract(con, setter, [obj, v], {}, st, node)]
        if not attr.startswith("$"):
            fty = self.field_ty(cls, attr)
            if v.ty.kind == "list" and fty.kind == "list":
                if v.ty.region != fty.region:
                    raise OutsideSubset(
                        f"region mismatch: a list of region {v.ty.region!r} is stored in field {cls}.{attr} "
                        f"declared in region {fty.region!r} (line {getattr(node, 'lineno', 0)})")
        if not attr.startswith("$") and self.field_ty(cls, attr).kind == "tuple":
            # a field holding a pair of integers: one heap field per component (`attr#0`, `attr#1`)
            fty = self.field_ty(cls, attr)
            if v.ty.kind != "tuple" or len(v.t) != len(fty.items):
                raise OutsideSubset(f"{cls}.{attr} assigned a {v.ty}, declared {fty}")
            for k, item in enumerate(v.t):
                st.heap = st.heap.put(f"{attr}#{k}", obj.t, to_int(item))
            return [st]
        if not attr.startswith("$") and self.field_ty(cls, attr).kind == "opt":
            # Optional[int] field: the value and an `is None` flag
            v = self.coerce(v, self.field_ty(cls, attr))
            st.heap = st.heap.put(attr, obj.t, to_int(v.t)).put(f"{attr}#none", obj.t, z3.If(v.aux, z3.IntVal(1), z3.IntVal(0)))
            return [st]
        if not attr.startswith("$") and self.field_ty(cls, attr).kind == "objdict":
            # a dict keyed by objects, kept in a field: insertion-ordered key list + one ghost array per value component
            if v.ty.kind != "emptydict":
                raise OutsideSubset(f"{cls}.{attr} assigned something that is not a fresh empty dict")
            keys = self.alloc_list(st, ANY, [])
            st.heap = st.heap.put(f"{attr}#keys", obj.t, keys.t).put(f"$${attr}#has", obj.t, z3.K(I, z3.IntVal(0)))
            return [st]
        if not attr.startswith("$") and self.field_ty(cls, attr).kind == "cachedict":
            if v.ty.kind != "emptydict":
                raise OutsideSubset(f"{cls}.{attr} assigned something that is not a fresh empty dict")
            for key in self.cache_keys():
                st.heap = st.heap.put(f"$cache_has:{key}", obj.t, z3.IntVal(0))
            v = Val(ANY, v.t)
        st.heap = st.heap.put(attr, obj.t, to_int(v))
        if v.ty.kind == "func":
            self.callable_fields.setdefault(attr, v.t)
        return [st]

    def set_item(self, lst: Val, idx: Val, v: Val, st: State, node):
        if lst.ty.kind == "cachedict":
            if idx.ty.kind != "str" or not isinstance(idx.t, str):
                raise OutsideSubset("cache key is not a constant string")
            if idx.t not in self.cache_keys():
                raise OutsideSubset(f"cache key {idx.t!r} is not a @_dispatcher_cache method name")
            st.heap = st.heap.put(f"$cache_has:{idx.t}", lst.t, z3.IntVal(1)) \
                .put(f"$cache_val:{idx.t}", lst.t, to_int(v))
            return [st]
        if lst.ty.kind == "ext":
            from .library import EXT_MODELS
            m = EXT_MODELS.get((lst.ty.arg, "__setitem__"))
            if m is None:
                raise OutsideSubset(f"no trusted contract for item assignment on a {lst.ty.arg}")
            return m(self, node, st, lst, idx, v)
        if lst.ty.kind == "objdict":
            owner, attr = lst.t
            if v.ty.kind != "tuple" or len(v.t) != len(lst.ty.items):
                raise OutsideSubset(f"value stored in .{attr} is not a {len(lst.ty.items)}-tuple")
            h = st.heap
            keys = Val(LIST(ANY), h.get(f"{attr}#keys", owner))
            has = h.get(f"$${attr}#has", owner)
            k = to_int(idx)
            n = h.len(keys)
            present = z3.Select(has, k) != 0
            h = h.set_at(keys, n, k).set_len(keys, z3.If(present, n, n + 1))
            h = h.put(f"$${attr}#has", owner, z3.Store(has, k, z3.IntVal(1)))
            for c_, item in enumerate(v.t):
                h = h.put(f"$${attr}#v{c_}", owner, z3.Store(h.get(f"$${attr}#v{c_}", owner), k, to_int(item)))
            st.heap = h
            return [st]
        if lst.ty.kind == "any" and idx.ty.kind == "str" and isinstance(idx.t, str):
            # opaque mapping (e.g. Schedule.metadata): one ghost field per constant key
            st.heap = st.heap.put(f"$item:{idx.t}", lst.t, to_int(v))
            return [st]
        if lst.ty.kind != "list":
            raise OutsideSubset(f"item store on {lst.ty}")
        h = st.heap
        n = h.len(lst)
        j = z3.If(idx.t < 0, idx.t + n, idx.t)
        ok = z3.And(j >= 0, j < n)
        okst, bad = self.split(st, ok, "IndexError", node)
        out = list(bad)
        if okst is not None:
            isinf = v.aux if v.ty.kind == "xint" else (z3.BoolVal(False) if lst.ty.arg.kind == "xint" else None)
            self.check_region(lst, v, node)
            okst.heap = okst.heap.set_at(lst, j, to_int(v), isinf)
            out.append(okst)
        return out

    def check_region(self, lst: Val, v: Val, node):
        el = lst.ty.arg
        if v.ty.kind == "list" and el is not None and el.kind == "list" and el.region != v.ty.region:
            raise OutsideSubset(f"region mismatch storing a list into a list (line {getattr(node, 'lineno', 0)})")

    @property
    def alloc_region(self):
        """lists allocated inside methods of observer classes live in the observer region"""
        cls = self.cur_fi.cls if self.cur_fi else None
        if cls and self.prog.is_subclass(cls, "DispatcherObserver"):
            return "o"
        return getattr(self.cur, "alloc_region", "c")

    def split(self, st: State, ok, exc, node):
        """Returns (state where ok holds or None, [raising states])."""
        if st.pure is not None:
            st.pure.append((ok, exc, node))
            return st, []
        oks = z3.simplify(ok)
        if z3.is_true(oks):
            return st, []
        bad = []
        if self.feasible(st, z3.Not(ok)):
            b = st.copy()
            b.assume(z3.Not(ok))
            b.status = "raise"
            b.exc = (exc, node)
            bad.append(b)
        if z3.is_false(oks) or not self.feasible(st, ok):
            return None, bad
        st.assume(ok)
        return st, bad

    # -------------------------------------------------------------- try/except
    def st_Try(self, s, st):
        if s.finalbody or s.orelse:
            raise OutsideSubset("try/finally/else")
        out = []
        for f in self.exec_block(s.body, st):
            if f.status != "raise":
                out.append(f)
                continue
            exn = f.exc[0]
            handled = False
            for h in s.handlers:
                hn = "Exception" if h.type is None else ast.unparse(h.type).split(".")[-1]
                if exc_matches(exn, hn):
                    f.status = "run"
                    f.exc = None
                    out.extend(self.exec_block(h.body, f))
                    handled = True
                    break
            if not handled:
                out.append(f)
        return out

    # ------------------------------------------------------------------- loops
    def loop_spec(self, s):
        # a loop keeps the ordinal of its first encounter: several paths may reach the same loop statement
        known = self.loop_ids.get(id(s))
        if known is not None:
            ordinal = known
        else:
            ordinal = max([self.loop_ordinal] + [v + 1 for v in self.loop_ids.values()])
            self.loop_ids[id(s)] = ordinal
        self.loop_ordinal = max(self.loop_ordinal, ordinal + 1)
        spec = self.cur.loops.get(ordinal)
        if isinstance(s, ast.For):
            header = f"for {ast.unparse(s.target)} in {ast.unparse(s.iter)}"
        else:
            header = f"while {ast.unparse(s.test)}"
        if spec is not None and spec.header != header:
            raise OutsideSubset(
                f"drift: loop {ordinal} of {self.cur.name} is `{header}`, the sidecar expects `{spec.header}`")
        if spec is None:
            self.notes.append(f"loop {ordinal} of {self.cur.name} (`{header}`) has no invariant: True is used")
            spec = LoopSpec(header)
        return spec, ordinal

    @staticmethod
    def assigned_names(stmts):
        names = set()
        for s in stmts:
            for n in ast.walk(s):
                if isinstance(n, ast.Name) and isinstance(n.ctx, ast.Store):
                    names.add(n.id)
                # sets are values: `s.add(x)` / `s.update(xs)` rebinds the local
                if (isinstance(n, ast.Call) and isinstance(n.func, ast.Attribute) and n.func.attr in ("add", "update")
                        and isinstance(n.func.value, ast.Name)):
                    names.add(n.func.value.id)
        return names

    def st_For(self, s, st):
        if s.orelse:
            raise OutsideSubset("for/else")
        spec, ordinal = self.loop_spec(s)
        ord_after = None
        out = []
        for s1, itv in self.ev(s.iter, st):
            if s1.status != "run":
                out.append(s1)
                continue
            view = self.as_view(itv, s1)
            self.loop_ordinal = ordinal + 1
            out.extend(self.run_loop(s, spec, ordinal, s1, view))
            ord_after = self.loop_ordinal
        if ord_after is not None:
            self.loop_ordinal = ord_after
        return out

    def run_loop(self, s, spec, ordinal, st, view):
        is_for = isinstance(s, ast.For)
        hl = st.heap
        envl = dict(st.env)
        tag = f"loop{ordinal}"
        n = view.n if is_for else None

        outer_idx = list(getattr(self, "loop_stack", []))

        def lctx(state, i):
            return LoopCtx(self, self.h0, state.heap, self.args0, state.env, i, n, hl, envl,
                           (lambda j: view.get(hl, j)) if is_for else None, outer_idx)

        # 1. invariant on entry
        if spec.invariant:
            for nm, p in spec.invariant(lctx(st, z3.IntVal(0))):
                self.oblige(st, f"{tag}:inv-entry:{nm}", p, "loop", s)
        # 2. havoc
        assigned = self.assigned_names(s.body) | (self.assigned_names([s.target]) if is_for else set())
        head = st.copy()
        for nm in assigned:
            if nm in head.env:
                head.env[nm] = self.fresh_like(head.env[nm], nm, head)
        frame = spec.modifies(lctx(st, z3.IntVal(0))) if spec.modifies else PURE
        head.heap = self.havoc(head, frame, hl)
        i = fresh(f"i_{tag}")
        exit_st = head.copy()
        # 3. arbitrary iteration
        if is_for:
            head.assume(z3.And(i >= 0, i < n))
        if spec.invariant:
            for nm, p in spec.invariant(lctx(head, i)):
                head.assume(p, nm)
        results = []
        self.loop_stack = outer_idx + [i]
        if is_for:
            item = view.get(hl, i)
            body_states = self.assign(s.target, item, head)
            body_states = [x for b in body_states for x in self.exec_block(s.body, b)]
        else:
            body_states = []
            for h2, cv in self.ev(s.test, head):
                if h2.status != "run":
                    results.append(h2)
                    continue
                b = self.truthy(cv, h2)
                if not self.feasible(h2, b):
                    continue
                h2.assume(b)
                dec0 = spec.decreases(lctx(h2, i)) if spec.decreases else None
                for x in self.exec_block(s.body, h2):
                    if dec0 is not None and x.status in ("run", "cont"):
                        d1 = spec.decreases(lctx(x, i))
                        self.oblige(x, f"{tag}:decreases", z3.And(dec0 >= 0, d1 < dec0), "loop", s)
                    body_states.append(x)
        self.loop_stack = outer_idx
        for b in body_states:
            if b.status in ("run", "cont"):
                b.status = "run"
                if spec.invariant:
                    for nm, p in spec.invariant(lctx(b, i + 1 if is_for else i)):
                        self.oblige(b, f"{tag}:inv-preserved:{nm}", p, "loop", s)
                self.frame_obligations_loop(b, hl, frame, tag)
            elif b.status == "break":
                b.status = "run"
                results.append(b)
            else:
                results.append(b)
        # 4. exit
        if is_for:
            exit_st.assume(i == n)
            exit_st.assume(n >= 0)
            if spec.invariant:
                for nm, p in spec.invariant(lctx(exit_st, i)):
                    exit_st.assume(p, nm)
            results.append(exit_st)
        else:
            if spec.invariant:
                for nm, p in spec.invariant(lctx(exit_st, i)):
                    exit_st.assume(p, nm)
            for e2, cv in self.ev(s.test, exit_st):
                if e2.status != "run":
                    results.append(e2)
                    continue
                b = self.truthy(cv, e2)
                if self.feasible(e2, z3.Not(b)):
                    e2.assume(z3.Not(b))
                    results.append(e2)
        return results

    def frame_obligations_loop(self, st, hl, frame, tag):
        self.frame_obligations(st, hl, st.heap, frame, f"{tag}:frame")

    def st_While(self, s, st):
        if s.orelse:
            raise OutsideSubset("while/else")
        spec, ordinal = self.loop_spec(s)
        return self.run_loop(s, spec, ordinal, st, None)

    def fresh_like(self, v: Val, name, st):
        k = v.ty.kind
        if k in ("int", "bool", "ref", "list", "any", "xint", "deque", "set", "callref", "ext", "enum", "dict"):
            return self.fresh_val(v.ty, name + "_h", st, nonnull=False)
        if k == "emptydict":
            return self.fresh_val(self.as_dict(v).ty, name + "_h", st)
        if k == "opt":
            return self.fresh_val(v.ty, name + "_h", st)
        if k == "tuple":
            return Val(v.ty, [self.fresh_like(x, name, st) for x in v.t])
        if k in ("none", "func", "str"):
            return v
        raise OutsideSubset(f"cannot havoc loop variable {name} of type {v.ty}")

    def as_view(self, v: Val, st) -> IterView:
        if isinstance(v.t, IterView):
            return v.t
        if v.ty.kind in ("list", "deque"):
            elem = v.ty.arg
            lt = v

            def get(h, j, elem=elem, lt=lt):
                if elem.kind in ("tuple", "tupref"):
                    return self.unbox(h, elem, h.at(lt, j))
                return from_int(elem, h.at(lt, j), h.atx(lt, j) if elem.kind == "xint" else None)

            return IterView(st.heap.len(lt), get, lt)
        if v.ty.kind == "objdict":
            return self.objdict_view(st, v, "keys")
        if v.ty.kind == "tuple":
            items = v.t

            def gett(h, j):
                if len(items) == 0:
                    raise OutsideSubset("iteration over empty tuple")
                out = items[-1]
                for k in range(len(items) - 2, -1, -1):
                    out = self.ite_val(j == k, items[k], out)
                return out

            return IterView(z3.IntVal(len(items)), gett)
        raise OutsideSubset(f"iteration over {v.ty}")

    def ite_val(self, c, a: Val, b: Val) -> Val:
        if a.ty.kind == "none" and b.ty.kind == "none":
            return a
        if a.ty.kind == "xint" or b.ty.kind == "xint":
            a, b = self.to_xint(a), self.to_xint(b)
            return vxint(z3.If(c, a.t, b.t), z3.If(c, a.aux, b.aux))
        if a.ty.kind == "bool" and b.ty.kind == "bool":
            return vbool(z3.If(c, a.t, b.t))
        if a.ty.kind in ("int", "ref", "list", "any", "ext") and b.ty.kind in ("int", "ref", "list", "any", "none", "ext"):
            bt = b.t if b.ty.kind != "none" else z3.IntVal(0)
            return Val(a.ty, z3.If(c, a.t, bt))
        if a.ty.kind == "none" and b.ty.kind in ("ref", "list", "any"):
            return Val(b.ty, z3.If(c, z3.IntVal(0), b.t))
        if a.ty.kind == "tuple" and b.ty.kind == "tuple" and len(a.t) == len(b.t):
            return Val(a.ty, [self.ite_val(c, x, y) for x, y in zip(a.t, b.t)])
        if {a.ty.kind, b.ty.kind} <= {"emptydict", "any", "none"}:
            # an opaque mapping (only ever forwarded as **kwargs)
            at = a.t if a.ty.kind != "none" else z3.IntVal(0)
            bt = b.t if b.ty.kind != "none" else z3.IntVal(0)
            return Val(ANY, z3.If(c, at, bt))
        if a.ty.kind == "str" and b.ty.kind == "str":
            return a if (isinstance(a.t, str) and a.t == b.t) else Val(STR, None)
        if a.ty.kind == "bool" and b.ty.kind == "int":
            return vint(z3.If(c, z3.If(a.t, 1, 0), b.t))
        if a.ty.kind == "int" and b.ty.kind == "bool":
            return vint(z3.If(c, a.t, z3.If(b.t, 1, 0)))
        raise OutsideSubset(f"conditional expression mixing {a.ty} and {b.ty}")

    def to_xint(self, v: Val) -> Val:
        if v.ty.kind == "xint":
            return v
        if v.ty.kind == "int":
            return vxint(v.t, z3.BoolVal(False))
        if v.ty.kind == "bool":
            return vxint(z3.If(v.t, 1, 0), z3.BoolVal(False))
        raise OutsideSubset(f"{v.ty} used as a number")

    # ------------------------------------------------------------- expressions
    def ev(self, e, st: State):
        m = getattr(self, "ev_" + type(e).__name__, None)
        if m is None:
            raise OutsideSubset(f"expression {type(e).__name__} at {self.cur_fi.file}:{getattr(e, 'lineno', 0)}")
        return m(e, st)

    def ev_many(self, es, st):
        res = [(st, [])]
        for e in es:
            nxt = []
            for s, vs in res:
                if s.status != "run":
                    nxt.append((s, vs))
                    continue
                for s2, v in self.ev(e, s):
                    nxt.append((s2, vs + [v]))
            res = nxt
        return res

    def ev_Constant(self, e, st):
        v = e.value
        if v is None:
            return [(st, VNONE)]
        if isinstance(v, bool):
            return [(st, vbool(v))]
        if isinstance(v, int):
            return [(st, vint(v))]
        if isinstance(v, str):
            return [(st, Val(STR, v))]
        if isinstance(v, float) and v.is_integer() and abs(v) < 2 ** 24:
            # 0.0, 1.0 ...: the same number as the integer (exact in float32 as well)
            return [(st, vint(int(v)))]
        if isinstance(v, float):
            # an opaque value: may be passed on (e.g. to a library call), never computed with
            return [(st, Val(Ty("float"), None))]
        raise OutsideSubset(f"constant {v!r}")

    def ev_JoinedStr(self, e, st):
        if not getattr(self.cur, "structured_fstrings", False):
            return [(st, Val(STR, None))]
        # contracts that speak about a formatted string see its structure: the literal pieces and the
        # values formatted into it (conversion / format spec kept as text)
        parts = []
        for v in e.values:
            if isinstance(v, ast.Constant):
                parts.append(("lit", v.value))
            else:
                res = self.ev(v.value, st)
                if len(res) != 1 or res[0][0].status != "run":
                    raise OutsideSubset("formatted value forks or raises inside an f-string")
                spec = ast.unparse(v.format_spec) if v.format_spec is not None else ""
                parts.append(("val", res[0][1], spec))
        return [(st, Val(STR, FStr(parts)))]

    def ev_Name(self, e, st):
        if e.id in st.env:
            return [(st, st.env[e.id])]
        if e.id in self.prog.classes:
            return [(st, Val(Ty("class", e.id), e.id))]
        if e.id in self.prog.functions and e.id in self.reg:
            return [(st, Val(FUNC, AbstractCallable(e.id)))]
        g = getattr(self.cur, "globals", {}).get(e.id)
        if g is not None:
            return [(st, g)]
        mc = self.prog.module_consts.get(self.cur_fi.file, {}).get(e.id) if self.cur_fi else None
        if mc is not None:
            return self.ev(mc, st)   # module-level constant of the file the function lives in
        raise OutsideSubset(f"unknown name {e.id} at line {e.lineno}")

    def ev_Tuple(self, e, st):
        return [(s, Val(TUPLE(*[v.ty for v in vs]), vs) if s.status == "run" else None)
                for s, vs in self.ev_many(e.elts, st)]

    def ev_List(self, e, st):
        out = []
        for s, vs in self.ev_many(e.elts, st):
            if s.status != "run":
                out.append((s, None))
                continue
            elem = vs[0].ty if vs else ANY
            out.append((s, self.alloc_list(s, elem, vs)))
        return out

    def box(self, st, v: Val) -> Val:
        """a tuple stored in a list is a small heap object with one field per component (`tup#k`)"""
        if v.ty.kind != "tuple":
            return v
        r = self.alloc_ref(st)
        items = []
        for k, item in enumerate(v.t):
            b = self.box(st, item)
            items.append(b.ty)
            st.heap = st.heap.put(f"tup#{k}", r, to_int(b))
        return Val(Ty("tupref", None, tuple(items)), r)

    def unbox(self, h, ty: Ty, t) -> Val:
        """the tuple value of a boxed tuple reference (ty: `tuple` or `tupref` with the component types)"""
        items = []
        for k, it in enumerate(ty.items):
            x = h.get(f"tup#{k}", t)
            items.append(self.unbox(h, it, x) if it.kind in ("tuple", "tupref") else from_int(it, x))
        return Val(Ty("tuple", None, tuple(i.ty for i in items)), items)

    def alloc_ref(self, st):
        if st.pure is not None:
            raise OutsideSubset("allocation inside a quantified (generator) expression")
        r = st.heap.alloc
        st.heap = st.heap.with_alloc(r + 1)
        return r

    def new_list(self, st, elem, region=None):
        """a fresh list reference of the region allocations of the current function go to"""
        return vlist(elem, self.alloc_ref(st), region or self.alloc_region)

    def alloc_list(self, st, elem, vals):
        r = self.new_list(st, elem)
        h = st.heap.set_len(r, z3.IntVal(len(vals)))
        for k, v in enumerate(vals):
            h = h.set_at(r, z3.IntVal(k), to_int(v), v.aux if v.ty.kind == "xint" else None)
        st.heap = h
        return r

    def ev_Attribute(self, e, st):
        if isinstance(e.value, ast.Name) and e.value.id not in st.env and e.value.id not in self.prog.classes:
            from .library import MODULE_CONSTANTS
            dotted = ast.unparse(e)
            if dotted in MODULE_CONSTANTS:
                return [(st, MODULE_CONSTANTS[dotted]())]
        out = []
        for s, obj in self.ev(e.value, st):
            if s.status != "run":
                out.append((s, None))
                continue
            out.extend(self.get_attr(obj, e.attr, s, e))
        return out

    def get_attr(self, obj: Val, attr, st, node):
        k = obj.ty.kind
        if k == "class" and self.is_enum_class(obj.t):
            members = list(self.prog.classes[obj.t].class_attrs)
            if attr in members:
                return [(st, Val(Ty("enum", obj.t), z3.IntVal(members.index(attr))))]
        if k == "class":
            # Class.attr : static method reference or class attribute
            fi = self.prog.find_method(obj.t, attr)
            if fi is not None:
                if fi.kind == "classmethod":       # Class.method(...): the class itself is the first argument
                    return [(st, Val(FUNC, ("bound", fi, obj)))]
                return [(st, Val(FUNC, ("static", fi)))]
            ca = self.prog.find_class_attr(obj.t, attr)
            if ca is not None:
                return self.ev(ca, st)
            raise OutsideSubset(f"class attribute {obj.t}.{attr}")
        if k in ("list", "deque", "set", "cachedict", "objdict", "dictview"):
            return [(st, Val(Ty("listmethod"), (obj, attr)))]
        if k == "ext":
            from .library import EXT_MODELS
            if (obj.ty.arg, attr) in EXT_MODELS:
                return [(st, Val(FUNC, ("ext", obj.ty.arg, attr, obj)))]
            if (obj.ty.arg, "." + attr) in EXT_MODELS:      # a modelled attribute
                return EXT_MODELS[(obj.ty.arg, "." + attr)](self, node, st, obj)
            raise OutsideSubset(f"no trusted contract for {obj.ty.arg}.{attr} (line {node.lineno})")
        if k == "enum" and attr in ("value", "name"):
            return [(st, Val(INT, obj.t))]
        if k == "classof" and attr == "__name__":
            # the class name of the object's dynamic class, represented by its class tag
            return [(st, Val(Ty("int"), st.heap.get("$type", obj.t)))]
        if k == "func" and attr == "__name__":
            t = obj.t
            nm = getattr(t, "method_name", None)
            if nm is None:
                raise OutsideSubset("__name__ of an unknown callable")
            return [(st, Val(STR, nm))]
        if k != "ref":
            raise OutsideSubset(f"attribute {attr} of {obj.ty} at line {node.lineno}")
        cls = obj.ty.arg
        if attr == "__class__":
            return [(st, Val(Ty("classof"), obj.t))]
        if attr == "__slots__":
            return [(st, Val(Ty("slots", cls), cls))]
        prop = self.prog.find_property(cls, attr)
        if prop is not None:
            con = self.reg.get(prop.qualname)
            if con is None:
                raise OutsideSubset(f"no contract for property {prop.qualname}")
            return self.apply_contract(con, prop, [obj], {}, st, node)
        meth = self.prog.find_method(cls, attr)
        if meth is not None:
            return [(st, Val(FUNC, ("bound", meth, obj)))]
        ca = self.prog.find_class_attr(cls, attr)
        if ca is not None and not self.has_field(cls, attr):
            subs = [c for c in self.prog.classes if self.prog.is_subclass(c, cls)]
            overriding = [c for c in subs if c != cls and attr in self.prog.classes[c].class_attrs]
            if not overriding:
                return self.ev(ca, st)
            # a subclass overrides the class attribute: the value depends on the dynamic class
            tag = st.heap.get("$type", obj.t)
            res = None
            for c in subs:
                node = self.prog.find_class_attr(c, attr)
                val = self.ev(node, st)[0][1]
                res = val if res is None else self.ite_val(tag == self.class_id(c), val, res)
            return [(st, res)]
        ty = self.field_ty(cls, attr)
        if ty.kind == "func":
            return [(st, Val(FUNC, ("field", attr, obj)))]
        if ty.kind == "cachedict":
            return [(st, Val(ty, obj.t))]
        if ty.kind == "objdict":
            return [(st, Val(ty, (obj.t, attr)))]
        if ty.kind == "tuple":
            return [(st, Val(ty, [from_int(it, st.heap.get(f"{attr}#{k}", obj.t)) for k, it in enumerate(ty.items)]))]
        if ty.kind == "opt":
            return [(st, Val(ty, from_int(ty.arg, st.heap.get(attr, obj.t)), st.heap.get(f"{attr}#none", obj.t) != 0))]
        ok = obj.t != 0
        okst, bad = self.split(st, ok, "AttributeError", node)
        out = [(b, None) for b in bad]
        if okst is not None:
            v = from_int(ty, okst.heap.get(attr, obj.t))
            if v.ty.kind in ("ref", "list", "any", "deque", "ext"):
                # references stored in the heap exist: below the allocation counter; a field array
                # never written on this path still holds entry-state references (< alloc at entry)
                untouched = self.h0 is not None and okst.heap.farr(attr).eq(self.h0.farr(attr))
                if okst.pure is None:
                    okst.assume(z3.And(v.t >= 0, v.t < (self.h0.alloc if untouched else okst.heap.alloc)))
                okst.heap.mark_below(v.t, self.h0.alloc if untouched else okst.heap.alloc)
            out.append((okst, v))
        return out

    def is_enum_class(self, cls):
        ci = self.prog.classes.get(cls)
        return ci is not None and any(b.split(".")[-1] in ("Enum", "IntEnum") for b in ci.bases)

    def has_field(self, cls, attr):
        for c in self.prog.mro(cls):
            if f"{c}.{attr}" in self.field_types:
                return True
        return False

    def ev_Subscript(self, e, st):
        if isinstance(e.slice, ast.Slice):
            return self.ev_slice(e, st)
        out = []
        for s, (base, idx) in self.ev_many([e.value, e.slice], st):
            if s.status != "run":
                out.append((s, None))
                continue
            out.extend(self.get_item(base, idx, s, e))
        return out

    def get_item(self, base: Val, idx: Val, st, node):
        if base.ty.kind == "tuple":
            if z3.is_int_value(z3.simplify(idx.t)):
                return [(st, base.t[z3.simplify(idx.t).as_long()])]
            raise OutsideSubset("symbolic tuple index")
        if base.ty.kind == "objdict":
            owner, attr = base.t
            h = st.heap
            k = to_int(idx)
            okst, bad = self.split(st, z3.Select(h.get(f"$${attr}#has", owner), k) != 0, "KeyError", node)
            out = [(b, None) for b in bad]
            if okst is not None:
                out.append((okst, self.objdict_value(okst.heap, base, k)))
            return out
        if base.ty.kind in ("dict", "emptydict"):
            d = self.as_dict(base)
            okst, bad = self.split(st, z3.Select(d.t[0], to_int(idx)), "KeyError", node)
            out = [(b, None) for b in bad]
            if okst is not None:
                out.append((okst, from_int(d.ty.arg or ANY, z3.Select(d.t[1], to_int(idx)))))
            return out
        if base.ty.kind == "ext":
            from .library import EXT_MODELS
            m = EXT_MODELS.get((base.ty.arg, "__getitem__"))
            if m is None:
                raise OutsideSubset(f"no trusted contract for subscripting a {base.ty.arg}")
            return m(self, node, st, base, idx)
        if base.ty.kind not in ("list", "deque"):
            raise OutsideSubset(f"subscript of {base.ty} at line {node.lineno}")
        h = st.heap
        n = h.len(base)
        it = idx.t if idx.ty.kind in ("int", "enum") else z3.If(idx.t, 1, 0)
        j = z3.If(it < 0, it + n, it)
        okst, bad = self.split(st, z3.And(j >= 0, j < n), "IndexError", node)
        out = [(b, None) for b in bad]
        if okst is not None:
            elem = base.ty.arg
            if elem.kind in ("tuple", "tupref"):
                out.append((okst, self.unbox(okst.heap, elem, okst.heap.at(base, j))))
                return out
            v = from_int(elem, okst.heap.at(base, j), okst.heap.atx(base, j) if elem.kind == "xint" else None)
            if v.ty.kind in ("ref", "list", "any", "deque"):
                region = base.ty.region or "c"
                untouched = self.h0 is not None and okst.heap.arrs(region)[1].eq(self.h0.arrs(region)[1])
                if okst.pure is None:
                    okst.assume(z3.And(v.t >= 0, v.t < (self.h0.alloc if untouched else okst.heap.alloc)))
                okst.heap.mark_below(v.t, self.h0.alloc if untouched else okst.heap.alloc)
            out.append((okst, v))
        return out

    def ev_slice(self, e, st):
        sl = e.slice
        if sl.step is not None:
            raise OutsideSubset("slice with step")
        parts = [e.value] + [p for p in (sl.lower, sl.upper) if p is not None]
        out = []
        for s, vs in self.ev_many(parts, st):
            if s.status != "run":
                out.append((s, None))
                continue
            base = vs[0]
            if base.ty.kind != "list":
                raise OutsideSubset(f"slice of {base.ty}")
            k = 1
            n = s.heap.len(base)
            lo = z3.IntVal(0)
            hi = n
            if sl.lower is not None:
                lo = self.clamp(vs[k].t, n)
                k += 1
            if sl.upper is not None:
                hi = self.clamp(vs[k].t, n)
            out.append((s, self.materialise_slice(s, base, lo, hi)))
        return out

    @staticmethod
    def clamp(t, n):
        t2 = z3.If(t < 0, t + n, t)
        return z3.If(t2 < 0, 0, z3.If(t2 > n, n, t2))

    def materialise_slice(self, st, base, lo, hi):
        r = self.new_list(st, base.ty.arg)
        ln = z3.If(hi > lo, hi - lo, 0)
        h = st.heap.set_len(r, ln)
        st.heap = h
        q = fresh("sq")
        st.assume(forall([q], z3.Implies(z3.And(q >= 0, q < ln),
                                            z3.And(h.at(r, q) == h.at(base, lo + q),
                                                   h.atx(r, q) == h.atx(base, lo + q))),
                            patterns=[h.at(r, q)]))
        return r

    # boolean / arithmetic -------------------------------------------------
    def truthy(self, v: Val, st):
        k = v.ty.kind
        if k == "bool":
            return v.t
        if k == "int":
            return v.t != 0
        if k in ("list", "deque"):
            return st.heap.len(v) > 0
        if k in ("ref", "any", "callref", "ext"):
            return v.t != 0
        if k == "none":
            return z3.BoolVal(False)
        if k == "opt":
            inner = v.t
            if inner.ty.kind in ("int", "bool"):
                return z3.And(z3.Not(v.aux), self.truthy(inner, st))
            return z3.Not(v.aux)
        if k == "func":
            return z3.BoolVal(True)
        raise OutsideSubset(f"truth value of {v.ty}")

    def ev_BoolOp(self, e, st):
        # short-circuit: later operands evaluated only under their guard
        is_and = isinstance(e.op, ast.And)
        results = []
        if st.pure is not None:
            # inside a quantified expression: no forking; side conditions of later
            # operands are recorded unguarded (stronger than python's short circuit)
            acc = []
            for ex in e.values:
                r = self.ev(ex, st)
                if len(r) != 1:
                    raise OutsideSubset("boolean operand forks inside a quantified expression")
                acc.append(self.truthy(r[0][1], st))
            return [(st, vbool(z3.And(acc) if is_and else z3.Or(acc)))]

        def go(k, s, acc):
            if k == len(e.values):
                results.append((s, vbool(acc)))
                return
            for s2, v in self.ev(e.values[k], s):
                if s2.status != "run":
                    results.append((s2, None))
                    continue
                b = self.truthy(v, s2)
                if k == len(e.values) - 1:
                    results.append((s2, vbool(z3.And(acc, b) if is_and else z3.Or(acc, b))))
                    continue
                # does the next operand possibly raise/fork?  evaluate it under the guard
                cont = b if is_and else z3.Not(b)
                bs = z3.simplify(cont)
                if z3.is_false(bs):
                    results.append((s2, vbool(z3.BoolVal(not is_and))))
                    continue
                if self.simple_expr(e.values[k + 1:]):
                    # no exception possible on the right: merge with ite-free and/or
                    go(k + 1, s2, z3.And(acc, b) if is_and else z3.Or(acc, b))
                else:
                    if self.feasible(s2, z3.Not(cont)):
                        sc = s2.copy()
                        sc.assume(z3.Not(cont))
                        results.append((sc, vbool(z3.BoolVal(not is_and))))
                    if self.feasible(s2, cont):
                        s2.assume(cont)
                        go(k + 1, s2, z3.BoolVal(is_and))

        go(0, st, z3.BoolVal(is_and))
        # and/or of non-boolean operands returning the operand itself is not used in the subset
        return results

    def simple_expr(self, exprs):
        for e in exprs:
            for n in ast.walk(e):
                if isinstance(n, (ast.Call, ast.Subscript, ast.BinOp)):
                    return False
                if isinstance(n, ast.Attribute):
                    return False
        return True

    def ev_UnaryOp(self, e, st):
        out = []
        for s, v in self.ev(e.operand, st):
            if s.status != "run":
                out.append((s, None))
            elif isinstance(e.op, ast.Not):
                out.append((s, vbool(z3.Not(self.truthy(v, s)))))
            elif isinstance(e.op, ast.USub):
                out.append((s, vint(-self.num(v))))
            elif isinstance(e.op, ast.UAdd):
                out.append((s, vint(self.num(v))))
            else:
                raise OutsideSubset(f"unary {type(e.op).__name__}")
        return out

    def num(self, v: Val):
        if v.ty.kind == "int":
            return v.t
        if v.ty.kind == "bool":
            return z3.If(v.t, z3.IntVal(1), z3.IntVal(0))
        raise OutsideSubset(f"{v.ty} used as an integer")

    def ev_BinOp(self, e, st):
        out = []
        for s, (a, b) in self.ev_many([e.left, e.right], st):
            if s.status != "run":
                out.append((s, None))
                continue
            out.extend(self.binop(e.op, a, b, s, e))
        return out

    def binop(self, op, a, b, st, node):
        if a.ty.kind == "ext" or b.ty.kind == "ext":
            from .library import EXT_MODELS
            recv = a if a.ty.kind == "ext" else b
            name = {"Add": "__add__", "Sub": "__sub__", "Mult": "__mul__"}.get(type(op).__name__)
            m = EXT_MODELS.get((recv.ty.arg, name)) if name else None
            if m is None:
                raise OutsideSubset(f"no trusted contract for {type(op).__name__} on a {recv.ty.arg}")
            return m(self, node, st, a, b)
        if isinstance(op, ast.Mult) and a.ty.kind == "list" and b.ty.kind == "int":
            return [(st, self.list_repeat(st, a, b))]
        if isinstance(op, ast.Add) and a.ty.kind == "list" and b.ty.kind == "list":
            return [(st, self.list_concat(st, a, b))]
        if a.ty.kind == "xint" or b.ty.kind == "xint":
            a, b = self.to_xint(a), self.to_xint(b)
            if isinstance(op, ast.Add):
                return [(st, vxint(a.t + b.t, z3.Or(a.aux, b.aux)))]
            raise OutsideSubset("arithmetic on infinity other than +")
        x, y = self.num(a), self.num(b)
        if isinstance(op, ast.Add):
            return [(st, vint(x + y))]
        if isinstance(op, ast.Sub):
            return [(st, vint(x - y))]
        if isinstance(op, ast.Mult):
            return [(st, vint(x * y))]
        if isinstance(op, (ast.FloorDiv, ast.Mod)):
            okst, bad = self.split(st, y != 0, "ZeroDivisionError", node)
            out = [(b_, None) for b_ in bad]
            if okst is not None:
                # python floor semantics: z3 div/mod are euclidean (mod >= 0)
                # floor division/modulo characterised exactly (sign of the remainder follows the divisor)
                fq = fresh("fdiv")
                fr = fresh("fmod")
                okst.assume(x == fq * y + fr)
                okst.assume(z3.If(y > 0, z3.And(fr >= 0, fr < y), z3.And(fr <= 0, fr > y)))
                out.append((okst, vint(fq if isinstance(op, ast.FloorDiv) else fr)))
            return out
        raise OutsideSubset(f"binary operator {type(op).__name__}")

    def list_repeat(self, st, a: Val, b: Val):
        h = st.heap
        n1 = h.len(a)
        if not z3.is_int_value(z3.simplify(n1)) or z3.simplify(n1).as_long() != 1:
            raise OutsideSubset("list repetition of a list that is not a one-element display")
        x = h.at(a, 0)
        xinf = z3.Select(h.elxarr(a), 0)
        r = self.new_list(st, a.ty.arg)
        n = z3.If(b.t > 0, b.t, 0)
        st.heap = st.heap.set_len(r, n).set_elarr(r, z3.K(I, x), z3.K(I, xinf))
        return r

    def list_concat(self, st, a, b):
        r = self.new_list(st, a.ty.arg)
        h = st.heap
        na, nb = h.len(a), h.len(b)
        h = h.set_len(r, na + nb)
        st.heap = h
        q = fresh("cq")
        st.assume(forall([q], z3.Implies(z3.And(q >= 0, q < na + nb),
                                            h.at(r, q) == z3.If(q < na, h.at(a, q), h.at(b, q - na))),
                            patterns=[h.at(r, q)]))
        return r

    def ev_Compare(self, e, st):
        out = []
        for s, vs in self.ev_many([e.left] + list(e.comparators), st):
            if s.status != "run":
                out.append((s, None))
                continue
            if len(vs) == 2 and (vs[0].ty.kind == "ext" or vs[1].ty.kind == "ext") \
                    and isinstance(e.ops[0], (ast.Eq, ast.LtE, ast.GtE, ast.Lt, ast.Gt)):
                from .library import EXT_MODELS
                recv = vs[0] if vs[0].ty.kind == "ext" else vs[1]
                m = EXT_MODELS.get((recv.ty.arg, "__cmp__"))
                if m is not None:
                    out.extend(m(self, e, s, type(e.ops[0]).__name__, vs[0], vs[1]))
                    continue
            acc = []
            # ordering comparisons of an Optional[int]: TypeError when it is None, else its value
            if any(isinstance(op, (ast.Lt, ast.LtE, ast.Gt, ast.GtE)) for op in e.ops):
                for k, v in enumerate(vs):
                    if s is not None and v.ty.kind == "opt" and v.t.ty.kind in ("int", "bool"):
                        s, bad = self.split(s, z3.Not(v.aux), "TypeError", e)
                        out.extend((b_, None) for b_ in bad)
                        vs[k] = v.t
                if s is None:
                    continue
            for k, op in enumerate(e.ops):
                acc.append(self.compare(op, vs[k], vs[k + 1], s, e))
            out.append((s, vbool(z3.And(acc) if len(acc) > 1 else acc[0])))
        return out

    def compare(self, op, a: Val, b: Val, st, node):
        if (a.ty.kind == "ext" or b.ty.kind == "ext") and isinstance(op, (ast.Eq, ast.LtE, ast.GtE, ast.Lt, ast.Gt)):
            from .library import EXT_MODELS
            recv = a if a.ty.kind == "ext" else b
            m = EXT_MODELS.get((recv.ty.arg, "__cmp__"))
            if m is not None:      # operator overloading that BUILDS an expression object (CP-SAT): see ev_Compare
                raise OutsideSubset("overloaded comparison of external objects outside a call argument")
        if isinstance(op, (ast.Is, ast.IsNot)):
            r = self.identical(a, b)
            return r if isinstance(op, ast.Is) else z3.Not(r)
        if isinstance(op, (ast.In, ast.NotIn)):
            r = self.contains(b, a, st)
            return r if isinstance(op, ast.In) else z3.Not(r)
        if isinstance(op, (ast.Eq, ast.NotEq)):
            r = self.equal(a, b, st, node)
            return r if isinstance(op, ast.Eq) else z3.Not(r)
        if a.ty.kind == "xint" or b.ty.kind == "xint":
            a, b = self.to_xint(a), self.to_xint(b)
            lt = z3.And(z3.Not(a.aux), z3.Or(b.aux, a.t < b.t))
            le = z3.Or(b.aux, z3.And(z3.Not(a.aux), a.t <= b.t))
            if isinstance(op, ast.Lt):
                return lt
            if isinstance(op, ast.LtE):
                return le
            if isinstance(op, ast.Gt):
                return z3.Not(le)
            if isinstance(op, ast.GtE):
                return z3.Not(lt)
        x, y = self.num(a), self.num(b)
        if isinstance(op, ast.Lt):
            return x < y
        if isinstance(op, ast.LtE):
            return x <= y
        if isinstance(op, ast.Gt):
            return x > y
        if isinstance(op, ast.GtE):
            return x >= y
        raise OutsideSubset(f"comparison {type(op).__name__}")

    def identical(self, a, b):
        ka, kb = a.ty.kind, b.ty.kind
        if kb == "none":
            if ka == "none":
                return z3.BoolVal(True)
            if ka == "opt":
                return a.aux
            if ka == "cacheval":
                return z3.Not(a.t[0])
            if ka in ("ref", "list", "any", "deque", "callref", "ext"):
                return a.t == 0
            if ka in ("int", "bool", "func", "xint", "tuple", "str", "set"):
                return z3.BoolVal(False)
        if ka == "none":
            return self.identical(b, a)
        if ka in ("ref", "list", "any", "ext") and kb in ("ref", "list", "any", "ext"):
            return a.t == b.t
        if ka == "enum" and kb == "enum":
            return a.t == b.t
        raise OutsideSubset(f"`is` between {a.ty} and {b.ty}")

    def equal(self, a, b, st, node):
        ka, kb = a.ty.kind, b.ty.kind
        if ka in ("int", "bool") and kb in ("int", "bool"):
            if ka == kb:
                return a.t == b.t
            return self.num(a) == self.num(b)
        if ka == "xint" or kb == "xint":
            a, b = self.to_xint(a), self.to_xint(b)
            return z3.And(a.aux == b.aux, z3.Or(a.aux, a.t == b.t))
        if ka == "none" or kb == "none":
            return self.identical(a, b)
        if ka == "enum" and kb == "enum":
            return a.t == b.t
        if ka == "slots" and kb == "slots":
            # obj.__slots__ is a class-level constant: equal iff same class
            return z3.BoolVal(a.t == b.t)
        if ka == "str" and kb == "str" and a.t is not None and b.t is not None:
            return z3.BoolVal(a.t == b.t)
        if ka == "opt" and kb == "int":
            return z3.And(z3.Not(a.aux), a.t.t == b.t)
        if ka == "list" and kb == "list":
            return self.list_equal(a, b, st, node, 0)
        if ka == "ref" and kb == "ref":
            return self.ref_equal(a, b, st, node)
        hook = getattr(self.cur, "eq_hook", None)
        if hook is not None:
            r = hook(self, a, b, st, node)
            if r is not None:
                return r
        raise OutsideSubset(f"== between {a.ty} and {b.ty} at line {node.lineno}")

    def ref_equal(self, a: Val, b: Val, st, node):
        """`==` on objects: the class's __eq__ through its contract (spec_eq), identity if
        the class defines none"""
        cls = a.ty.arg
        fi = self.prog.find_method(cls, "__eq__")
        if fi is None:
            return a.t == b.t
        con = self.reg.get(fi.qualname)
        if con is None or not hasattr(con, "spec_eq"):
            raise OutsideSubset(f"== on {cls} objects but {fi.qualname} has no contract with spec_eq")
        return con.spec_eq(st.heap, a.t, b.t)

    def elem_equal(self, ety, x, y, st, node, depth):
        if ety.kind in ("int", "bool", "any"):
            return x == y
        if ety.kind == "ref":
            return self.ref_equal(Val(ety, x), Val(ety, y), st, node)
        if ety.kind == "list":
            return self.list_equal(Val(ety, x), Val(ety, y), st, node, depth + 1)
        raise OutsideSubset(f"== on list elements of type {ety}")

    def list_equal(self, a: Val, b: Val, st, node, depth):
        """python list equality: same length and element-wise =="""
        q = z3.Int(f"?eq{depth}")
        h = st.heap
        ety = a.ty.arg if a.ty.arg.kind != "any" else b.ty.arg
        same = self.elem_equal(ety, h.at(a, q), h.at(b, q), st, node, depth)
        return z3.And(h.len(a) == h.len(b),
                      forall([q], z3.Implies(z3.And(q >= 0, q < h.len(a)), same)))

    def contains(self, coll: Val, x: Val, st):
        k = coll.ty.kind
        if k == "list":
            q = fresh("mq")
            xi = to_int(x) if x.ty.kind != "opt" else None
            if x.ty.kind == "opt":
                return z3.And(z3.Not(x.aux), z3.Exists([q], z3.And(q >= 0, q < st.heap.len(coll),
                                                                  st.heap.at(coll, q) == x.t.t)))
            return z3.Exists([q], z3.And(q >= 0, q < st.heap.len(coll), st.heap.at(coll, q) == xi))
        if k == "set":
            return z3.Select(coll.t, to_int(x))
        if k == "tuple":
            return z3.Or([self.equal(x, it, st, None) for it in coll.t])
        if k in ("dict", "emptydict"):
            return z3.Select(self.as_dict(coll).t[0], to_int(x))
        if k == "objdict":
            return z3.Select(st.heap.get(f"$${coll.t[1]}#has", coll.t[0]), to_int(x)) != 0
        if k == "ext":
            from .library import EXT_MODELS
            m = EXT_MODELS.get((coll.ty.arg, "__contains__"))
            if m is None:
                raise OutsideSubset(f"no trusted contract for `in` on a {coll.ty.arg}")
            return m(self, st, coll, x)
        raise OutsideSubset(f"`in` on {coll.ty}")

    def ev_IfExp(self, e, st):
        out = []
        for s, c in self.ev(e.test, st):
            if s.status != "run":
                out.append((s, None))
                continue
            b = self.truthy(c, s)
            narrow = self.narrowing(e.test, s)
            if narrow is None and self.simple_expr([e.body, e.orelse]):
                for s2, (x, y) in self.ev_many([e.body, e.orelse], s):
                    out.append((s2, self.ite_val(b, x, y)))
                continue

            def branch(state, taken, expr):
                if narrow is None or narrow[1].get(taken) is None:
                    return self.ev(expr, state)
                nm, by_branch = narrow
                saved = state.env[nm]
                state.env[nm] = by_branch[taken]
                res = self.ev(expr, state)
                for s3, _ in res:
                    if s3.status == "run":
                        s3.env[nm] = saved
                return res

            if self.feasible(s, b):
                s1 = s.copy()
                s1.assume(b)
                out.extend(branch(s1, True, e.body))
            if self.feasible(s, z3.Not(b)):
                s.assume(z3.Not(b))
                out.extend(branch(s, False, e.orelse))
        return out

    def ev_Lambda(self, e, st):
        return [(st, Val(FUNC, Closure(e, st.env)))]

    # generator expressions are only evaluated by the builtins that consume them
    def ev_GeneratorExp(self, e, st):
        # python evaluates the outermost iterable of a generator expression immediately, when the
        # generator object is created: do the same (it may be an impure call)
        first = e.generators[0]
        if self.simple_expr([first.iter]):
            return [(st, Val(Ty("gen"), (e, dict(st.env))))]
        out = []
        for s2, itv in self.ev(first.iter, st):
            if s2.status != "run":
                out.append((s2, None))
                continue
            tmp = f"$gen_iter_{id(e)}"
            s2.env[tmp] = itv
            g2 = copy.copy(e)
            f2 = copy.copy(first)
            f2.iter = ast.copy_location(ast.Name(id=tmp, ctx=ast.Load()), first.iter)
            g2.generators = [f2] + list(e.generators[1:])
            out.append((s2, Val(Ty("gen"), (g2, dict(s2.env)))))
        return out

    def ev_ListComp(self, e, st):
        from .builtins import list_comprehension
        return list_comprehension(self, e, st)

    def ev_DictComp(self, e, st):
        """{k: v for ... in ...}: an insertion-ordered view (index -> (key, value)); duplicate keys are not merged, so
        callers that need key uniqueness state it"""
        from .builtins import eval_generators
        if len(e.generators) != 1 or e.generators[0].ifs:
            raise OutsideSubset("dict comprehension with several clauses or a filter")
        pair = ast.copy_location(ast.Tuple(elts=[e.key, e.value], ctx=ast.Load()), e)
        cur, q, raising = eval_generators(self, e.generators, pair, st)
        out = [(r, None) for r in raising]
        if cur is None:
            return out
        v = q.vars[0]
        n = q.views[0].n
        elem = q.elem
        from .builtins import _subst_val

        def get(h, j):
            return _subst_val(elem, [(v, j)])
        out.append((cur, Val(Ty("dictview"), IterView(n, get))))
        return out

    def ev_Starred(self, e, st):
        out = []
        for s, v in self.ev(e.value, st):
            out.append((s, Val(Ty("starred"), v) if s.status == "run" else None))
        return out

    def ev_Set(self, e, st):
        # a set display used for membership tests: its elements
        return [(s, Val(TUPLE(*[v.ty for v in vs]), vs) if s.status == "run" else None)
                for s, vs in self.ev_many(e.elts, st)]

    def ev_Dict(self, e, st):
        if e.keys and all(isinstance(k, ast.Constant) and isinstance(k.value, str) for k in e.keys):
            # {"name": value, ...}: a record with constant keys (only ever forwarded as **kwargs / read by key)
            out = []
            for s, vs in self.ev_many(list(e.values), st):
                out.append((s, Val(Ty("strdict"), {k.value: v for k, v in zip(e.keys, vs)}) if s.status == "run" else None))
            return out
        if e.keys:
            raise OutsideSubset("non-empty dict display")
        r = self.alloc_ref(st)
        return [(st, Val(Ty("emptydict"), r))]

    def cache_keys(self):
        """names of the methods decorated with @_dispatcher_cache (read from the program)"""
        keys = []
        ci = self.prog.classes.get("Dispatcher")
        if ci:
            for nm, fi in ci.methods.items():
                if any(d.endswith("_dispatcher_cache") for d in fi.decorators):
                    keys.append(nm)
        return sorted(keys)

    # ------------------------------------------------------------ dynamic types
    def class_id(self, cls):
        ids = self.__dict__.get("_class_ids")
        if ids is None:
            ids = {c: i + 1 for i, c in enumerate(sorted(self.prog.classes))}
            self.__dict__["_class_ids"] = ids
        if cls not in ids:
            ids[cls] = len(ids) + 1
        return ids[cls]

    def dyn_isinstance(self, st, ref, cname):
        """ghost type tag `$type` of the object is one of cname's known subclasses"""
        subs = [c for c in self.prog.classes if self.prog.is_subclass(c, cname)]
        tag = st.heap.get("$type", ref)
        return z3.And(ref != 0, z3.Or([tag == self.class_id(c) for c in subs]))

    def dyn_subtype(self, st, tag_a, tag_b):
        """tag_a's class is a subclass of tag_b's class (relation read from the class
        statements of the parsed program)"""
        alts = []
        for a in self.prog.classes:
            for b in self.prog.mro(a):
                if b in self.prog.classes:
                    alts.append(z3.And(tag_a == self.class_id(a), tag_b == self.class_id(b)))
        return z3.Or(alts)

    # ------------------------------------------------------------------- calls
    def ev_Call(self, e, st):
        from .builtins import call_builtin
        f = e.func
        # super().__init__(...)
        if (isinstance(f, ast.Attribute) and isinstance(f.value, ast.Call)
                and isinstance(f.value.func, ast.Name) and f.value.func.id == "super"):
            cls = self.cur_fi.cls
            bases = self.prog.mro(cls)[1:]
            target = None
            for b in bases:
                ci = self.prog.classes.get(b)
                if ci and f.attr in ci.methods:
                    target = ci.methods[f.attr]
                    break
            if target is None:
                raise OutsideSubset(f"super().{f.attr} not found")
            selfv = st.env[self.cur_fi.node.args.args[0].arg]
            return self.call_function(target, [selfv], e, st)
        # closure variables provided by the contract (e.g. `method` inside the cache wrapper)
        if isinstance(f, ast.Name) and f.id not in st.env and f.id in (getattr(self.cur, "globals", None) or {}):
            return self.call_value(self.cur.globals[f.id], e, st)
        # builtins and library functions by name
        if isinstance(f, ast.Name) and f.id not in st.env:
            r = call_builtin(self, f.id, e, st)
            if r is not None:
                return r
            if f.id in self.prog.classes:
                return self.construct(f.id, e, st)
            fi = self.prog.functions.get(f.id)
            if fi is not None:
                return self.call_function(fi, [], e, st)
            raise OutsideSubset(f"call of unknown function {f.id} at line {e.lineno}")
        if isinstance(f, ast.Attribute):
            # module.function  (time.perf_counter, random.randint, itertools.chain ...)
            dotted = ast.unparse(f)
            if isinstance(f.value, ast.Name) and f.value.id not in st.env and f.value.id not in self.prog.classes:
                r = call_builtin(self, dotted, e, st)
                if r is not None:
                    return r
                raise OutsideSubset(f"call of {dotted} at line {e.lineno}")
        out = []
        for s, fv in self.ev(f, st):
            if s.status != "run":
                out.append((s, None))
                continue
            out.extend(self.call_value(fv, e, s))
        return out

    def call_value(self, fv: Val, e, st):
        from .builtins import call_list_method
        if fv.ty.kind == "listmethod":
            return call_list_method(self, fv, e, st)
        if fv.ty.kind == "class":
            return self.construct(fv.t, e, st)
        if fv.ty.kind == "classval":
            con = self.reg.get("classval:__call__")
            if con is None:
                raise OutsideSubset("call of a class-valued variable without the abstract constructor contract")
            return self.call_abstract(con, [fv], e, st)
        if fv.ty.kind == "callref":
            con = self.reg.get(fv.ty.arg)
            if con is None:
                raise OutsideSubset(f"no abstract contract {fv.ty.arg} for a stored callable (line {e.lineno})")
            okst, bad = self.split(st, fv.t != 0, "TypeError", e)
            out = [(b, None) for b in bad]
            if okst is not None:
                out.extend(self.call_abstract(con, [], e, okst, extra={"callee": fv.t}))
            return out
        if fv.ty.kind == "ext":
            from .library import EXT_MODELS
            m = EXT_MODELS.get((fv.ty.arg, "__call__"))
            if m is None:
                raise OutsideSubset(f"no trusted contract for calling a {fv.ty.arg} (line {e.lineno})")
            return m(self, e, st, fv)
        if fv.ty.kind != "func":
            raise OutsideSubset(f"call of a {fv.ty} at line {e.lineno}")
        t = fv.t
        if isinstance(t, tuple) and t[0] == "ext":
            from .library import EXT_MODELS
            return EXT_MODELS[(t[1], t[2])](self, e, st, t[3])
        if isinstance(t, tuple):
            if t[0] == "static":
                return self.call_function(t[1], [], e, st)
            if t[0] == "bound":
                fi = t[1]
                pre = [] if fi.kind == "staticmethod" else [t[2]]
                return self.call_function(fi, pre, e, st)
            if t[0] == "field":
                con = self.reg.get(f"attr:{t[1]}")
                if con is None:
                    raise OutsideSubset(f"no abstract contract for stored callable .{t[1]}")
                return self.call_abstract(con, [], e, st, extra={"holder": t[2]})
        if isinstance(t, AbstractCallable):
            con = self.reg.get(t.contract_name)
            if con is None:
                raise OutsideSubset(f"no abstract contract {t.contract_name} (line {e.lineno})")
            return self.call_abstract(con, [], e, st)
        if isinstance(t, Closure):
            return self.inline_closure(t, e, st)
        raise OutsideSubset(f"call of {t!r}")

    def eval_args(self, e, st):
        """-> [(state, positional Vals, keyword Vals)]"""
        # `**{...}` / `**name`: forwarded keyword arguments are opaque (a dict display is not evaluated)
        kws = [k for k in e.keywords if not (k.arg is None and isinstance(k.value, (ast.Dict, ast.Name)))]
        dropped = len(kws) != len(e.keywords)
        if dropped:
            e = copy.copy(e)
            e.keywords = kws
        exprs = list(e.args) + [k.value for k in e.keywords]
        out = []
        for s, vs in self.ev_many(exprs, st):
            if s.status != "run":
                out.append((s, None, None))
                continue
            pos = []
            for v in vs[: len(e.args)]:
                if v.ty.kind == "starred" and v.t.ty.kind == "tuple":
                    pos.extend(v.t.t)   # f(*pair): the items of a tuple value
                else:
                    pos.append(v)
            kw = {}
            for k, v in zip(e.keywords, vs[len(e.args):]):
                if k.arg is None:
                    continue  # **kwargs forwarding: opaque
                kw[k.arg] = v
            out.append((s, pos, kw))
        return out

    def bind_params(self, fi: FuncInfo, pos, kw, st, con=None):
        a = fi.node.args
        names = [x.arg for x in list(a.posonlyargs) + list(a.args)]
        bound = {}
        for nm, v in zip(names, pos):
            bound[nm] = v
        if len(pos) > len(names) and not a.vararg:
            raise OutsideSubset(f"too many positional arguments for {fi.qualname}")
        for k, v in kw.items():
            bound[k] = v
        defaults = list(a.defaults)
        for nm, d in zip(names[len(names) - len(defaults):], defaults):
            if nm not in bound:
                bound[nm] = self.ev(d, st)[0][1]
        for arg, d in zip(a.kwonlyargs, a.kw_defaults):
            if arg.arg not in bound and d is not None:
                bound[arg.arg] = self.ev(d, st)[0][1]
        for nm in names + [x.arg for x in a.kwonlyargs]:
            if nm not in bound:
                raise OutsideSubset(f"missing argument {nm} in call of {fi.qualname}")
        # coerce to declared parameter types (Optional wrapping, int|list unions)
        ptypes = self.param_types(fi, con) if con is not None else {}
        for nm, ty in ptypes.items():
            if nm in bound:
                bound[nm] = self.coerce(bound[nm], ty)
        if a.kwarg:
            bound[a.kwarg.arg] = Val(ANY, z3.IntVal(0))
        return bound

    def coerce(self, v: Val, ty: Ty) -> Val:
        if ty.kind == "opt" and v.ty.kind != "opt":
            if v.ty.kind == "none":
                inner = Val(ty.arg, z3.IntVal(0)) if ty.arg.kind in ("int",) else Val(ty.arg, z3.IntVal(0))
                return Val(ty, inner, z3.BoolVal(True))
            return Val(ty, v, z3.BoolVal(False))
        if ty.kind in ("ref", "list", "any", "callref", "ext") and v.ty.kind == "none":
            return Val(ty, z3.IntVal(0))
        if ty.kind == "callref" and v.ty.kind == "func":
            return Val(ty, z3.IntVal(id(v.t) % 1000003 + 1))
        if ty.kind == "union" and v.ty.kind != "union":
            a, b = ty.items
            if v.ty.kind == a.kind or (a.kind == "int" and v.ty.kind in ("bool", "enum")):
                return Val(ty, (z3.BoolVal(True), v, self.fresh_val(b, "unused_alt")))
            if v.ty.kind == b.kind:
                return Val(ty, (z3.BoolVal(False), self.fresh_val(a, "unused_alt"), v))
            raise OutsideSubset(f"a {v.ty} passed where {ty} is expected")
        return v

    def call_function(self, fi: FuncInfo, pre_args, e, st):
        # (a ghost lemma may name which of a function's contracts -- one per argument shape -- its calls go through)
        variant = (getattr(self.cur, "call_variants", None) or {}).get(fi.qualname, fi.qualname)
        con = self.reg.get(variant)
        if con is None:
            raise OutsideSubset(f"callee {fi.qualname} has no contract (line {e.lineno})")
        out = []
        for s, pos, kw in self.eval_args(e, st):
            if s.status != "run":
                out.append((s, None))
                continue
            out.extend(self.apply_contract(con, fi, list(pre_args) + pos, kw, s, e))
        return out

    def call_abstract(self, con, pre_args, e, st, extra=None):
        out = []
        for s, pos, kw in self.eval_args(e, st):
            if s.status != "run":
                out.append((s, None))
                continue
            names = list(con.params)
            bound = dict(zip(names, list(pre_args) + pos))
            bound.update(kw)
            out.extend(self.apply_bound(con, bound, s, e, extra))
        return out

    def apply_contract(self, con: Contract, fi: FuncInfo, pos, kw, st, node):
        bound = self.bind_params(fi, pos, kw, st, con)
        sel = getattr(con, "select_variant", None)
        if sel is not None:
            # a function with a union-typed parameter may have one contract per argument shape
            other = sel(bound)
            if other is not None:
                con = self.reg[other]
                bound = self.bind_params(fi, pos, kw, st, con)
        return self.apply_bound(con, bound, st, node)

    def apply_bound(self, con: Contract, bound, st: State, node, extra=None):
        """Use a callee through its contract: check requires, branch to each declared
        exceptional case, havoc the frame, assume ensures."""
        h0 = st.heap
        c0 = Ctx(self, h0, h0, bound, extra=extra)
        line = getattr(node, "lineno", 0)
        for nm, p in con.requires(c0):
            if st.pure is not None:
                st.pure.append((p, f"pre:{con.name}:{nm}", node))
            else:
                self.oblige(st, f"call-pre:{con.name}:{nm}@{line}", p, "call-pre", node)
                st.assume(p, nm)
        out = []
        whens = []
        for exn, label, when in con.raises(c0):
            whens.append(when)
            if st.pure is not None:
                st.pure.append((z3.Not(when), exn, node))
                continue
            if self.feasible(st, when):
                r = st.copy()
                r.assume(when)
                r.status = "raise"
                r.exc = (exn, node)
                xframe = con.exc_modifies(c0, exn)
                if xframe is not PURE:
                    r.heap = self.havoc(r, xframe, h0)
                for nm, p in con.exc_ensures(Ctx(self, h0, r.heap, bound, extra=extra), exn):
                    r.assume(p)
                out.append((r, None))
        if whens and st.pure is None:
            ok = z3.Not(z3.Or(whens))
            if not self.feasible(st, ok):
                return out
            st.assume(ok)
        frame = con.modifies(c0)
        if not con.pure:
            if st.pure is not None:
                raise OutsideSubset(f"call of impure {con.name} inside a quantified expression")
            st.heap = self.havoc(st, frame, h0)
        rty = con.ret if con.ret is not None else NONE
        ret_dict = getattr(con, "ret_dict", None)
        if ret_dict:
            # a dictionary display with constant string keys: one fresh value per key (nested displays allowed)
            def fresh_dict(spec, prefix):
                return Val(Ty("strdict"), {k: (fresh_dict(t, prefix + "_" + k) if isinstance(t, dict)
                                                 else self.fresh_val(t, prefix + "_" + k, st, nonnull=False))
                                            for k, t in spec.items()})
            res = fresh_dict(ret_dict, f"r_{con.name.split('.')[-1]}")
        else:
            res = self.fresh_val(rty, f"r_{con.name.split('.')[-1]}", st if rty.kind != "opt" else st, nonnull=False) \
                if rty.kind != "none" else VNONE
        if getattr(con, "borrowed", False) and res.ty.kind == "list":
            res.aux = "borrowed"
        c1 = Ctx(self, h0, st.heap, bound, res, extra=extra)
        for nm, p in con.ensures(c1):
            st.assume(p, nm)
        if res is not None and res.ty.kind in ("ref", "list", "any") and isinstance(res.t, z3.ExprRef):
            st.heap.mark_below(res.t, st.heap.alloc)   # a returned reference exists at return time
        out.append((st, res))
        return out

    def construct(self, cls, e, st):
        fi = self.prog.find_method(cls, "__init__")
        if fi is None:
            raise OutsideSubset(f"class {cls} has no __init__ in the parsed files")
        con = self.reg.get(f"{cls}.__init__") or self.reg.get(fi.qualname)
        if con is None:
            raise OutsideSubset(f"constructor {cls}.__init__ has no contract (line {e.lineno})")
        out = []
        for s, pos, kw in self.eval_args(e, st):
            if s.status != "run":
                out.append((s, None))
                continue
            r = self.alloc_ref(s)
            obj = vref(cls, r)
            # ghost: the dynamic class of the new object
            s.heap = s.heap.put("$type", r, z3.IntVal(self.class_id(cls)))
            hook = getattr(con, "ghost_new", None)
            if hook is not None:
                hook(self, s, obj, pos, kw)   # ghost definitions attached to the new object
            for s2, _ in self.apply_contract(con, fi, [obj] + pos, kw, s, e):
                out.append((s2, obj if s2.status == "run" else None))
        return out

    def inline_closure(self, clo: Closure, e, st):
        """Lambdas and small local functions are executed in place (their body is real
        source text of the function under verification)."""
        node = clo.node
        out = []
        for s, pos, kw in self.eval_args(e, st):
            if s.status != "run":
                out.append((s, None))
                continue
            out.extend(self.inline_with(clo, pos, s))
        return out

    def inline_with(self, clo: Closure, pos, st):
        node = clo.node
        names = [a.arg for a in node.args.args]
        saved = st.env
        env = dict(clo.env)
        env.update(saved)  # closures see the enclosing function's current locals
        for nm, v in zip(names, pos):
            env[nm] = v
        st.env = env
        out = []
        if isinstance(node, ast.Lambda):
            for s2, v in self.ev(node.body, st):
                s2.env = saved if s2 is st else s2.env
                out.append((s2, v))
            for s2, _ in out:
                s2.env = {k: s2.env.get(k, saved.get(k)) for k in saved} if s2.status == "run" else s2.env
            return out
        body = node.body
        for f in self.exec_block([b for b in body if not (isinstance(b, ast.Expr) and isinstance(b.value, ast.Constant))], st):
            if f.status == "ret":
                f.status = "run"
                v = f.value
                f.value = None
                f.env = {k: f.env.get(k, saved.get(k)) for k in saved}
                out.append((f, v))
            elif f.status == "run":
                f.env = {k: f.env.get(k, saved.get(k)) for k in saved}
                out.append((f, VNONE))
            else:
                out.append((f, None))
        return out
