"""Verify a set of contracts and discharge their obligations."""
from __future__ import annotations

import time
import traceback

import z3

from . import solve
from .engine import ContractError, Engine, OutsideSubset
from .frontend import load_program


class FnReport:
    def __init__(self, name):
        self.name = name
        self.status = "ok"  # ok | drift | error
        self.message = ""
        self.file = ""
        self.line = 0
        self.source_hash = ""
        self.paths = 0
        self.obligations = []  # (Obligation, Result)
        self.notes = []
        self.seconds = 0.0


def verify_contracts(contracts, registry, field_types, program=None, names=None, verbose=False,
                     timeout_ms=None, canary=True):
    program = program or load_program()
    reports = []
    for con in contracts:
        if con.abstract or con.trusted:
            continue
        if names and con.name not in names:
            continue
        rep = FnReport(con.name)
        t0 = time.time()
        eng = Engine(program, registry, field_types)
        try:
            fi = program.lookup(con.name)
            if fi is None:
                raise OutsideSubset(f"drift: {con.name} no longer exists in the program")
            rep.file, rep.line, rep.source_hash = fi.file, fi.line, fi.source_hash()
            obs, info = eng.verify(con)
            rep.paths = info["paths"]
            rep.notes = list(eng.notes)
            # vacuity: requires satisfiable
            r, _ = solve.check_sat(eng.cover_pc, timeout_ms=2000, mbqi=False)
            rep.cover = r
            if info["paths"] == 0:
                rep.status = "error"
                rep.message = "no path reaches the end of the function (vacuous)"
            for ob in obs:
                res = solve.prove(ob.pc, ob.goal, timeout_ms=timeout_ms)
                ob.result = res
                rep.obligations.append((ob, res))
                if verbose or res.seconds > 2 or res.status != "proved":
                    print(f"   {res.status:8s} {res.solver:5s} {res.seconds:6.2f}s  {ob.name}")
        except OutsideSubset as e:
            rep.status = "drift"
            rep.message = str(e)
        except ContractError as e:
            rep.status = "error"
            rep.message = str(e)
        except Exception as e:  # engine bug: never a violation
            rep.status = "error"
            rep.message = f"{type(e).__name__}: {e}\n{traceback.format_exc()}"
        rep.seconds = time.time() - t0
        reports.append(rep)
        if True:
            print(f"{rep.status:6s} {con.name}  paths={rep.paths} obligations={len(rep.obligations)} "
                  f"{rep.seconds:.2f}s {rep.message.splitlines()[0] if rep.message else ''}")
    return reports


def main(argv=None):
    import argparse
    import importlib
    ap = argparse.ArgumentParser()
    ap.add_argument("names", nargs="*")
    ap.add_argument("-v", action="store_true")
    ap.add_argument("--modules", default="contracts.core")
    a = ap.parse_args(argv)
    from contracts import all_contracts
    reg, ftypes = all_contracts()
    reps = verify_contracts(list(reg.values()), reg, ftypes, names=a.names or None, verbose=a.v)
    bad = 0
    for r in reps:
        for ob, res in r.obligations:
            if res.status != "proved":
                bad += 1
                print("NOT PROVED:", ob.name, res.status, res.reason, f"line {ob.line}")
                if res.model is not None and a.v:
                    print(res.model)
        if r.status != "ok":
            bad += 1
            print("FUNCTION", r.name, r.status, r.message)
    print("total obligations", sum(len(r.obligations) for r in reps), "not proved / problems", bad,
          "solver stats", solve.STATS)


if __name__ == "__main__":
    main()
