"""Verify functions under contract / lemmas, in parallel, and return JSON-able reports.

One worker process per item (function or lemma); z3 objects never cross process
boundaries.  Statuses per obligation: proved | refuted | unknown.  Statuses per
function: ok | drift (outside subset / sidecar does not apply) | error (engine bug or
contract error -- never a violation).
"""
from __future__ import annotations

import multiprocessing as mp
import os
import re
import sys
import time
import traceback

from . import solve


def strip_line(name):
    return re.sub(r"@\d+", "", name)


_STATE = {}


def _setup():
    if "reg" not in _STATE:
        from contracts import all_contracts
        from .frontend import load_program
        reg, ftypes, lemmas, extra = all_contracts()
        prog = load_program()
        for path in extra:
            prog.load_abs(path)
        try:
            from contracts.spec import relevance
        except ImportError:
            relevance = None
        try:
            from contracts.spec import CACHED
        except ImportError:
            CACHED = None
        _STATE.update(reg=reg, ftypes=ftypes, lemmas=lemmas, prog=prog, relevance=relevance, cache_keys=CACHED)
    return _STATE


def _model_text(model, limit=6000):
    if model is None:
        return ""
    try:
        txt = str(model)
    except Exception:  # pragma: no cover
        txt = "<model not printable>"
    return txt[:limit]


def verify_item(item, timeout_ms=None):
    """item = 'fn:<qualified name>' or 'lemma:<name>'"""
    import z3
    from .engine import ContractError, Engine, OutsideSubset
    st = _setup()
    kind, name = item.split(":", 1)
    rep = {"item": item, "name": name, "kind": kind, "status": "ok", "message": "", "file": "", "line": 0,
           "source_hash": "", "paths": 0, "cover": "", "canary": "", "obligations": [], "notes": [],
           "seconds": 0.0}
    t0 = time.time()
    try:
        if kind == "lemma":
            fn = st["lemmas"][name]
            steps = fn()
            obs = [(f"lemma:{name}:{st_[0]}", st_[1], st_[2], "lemma", 0, {}) for st_ in steps]
            # a step may name candidate ground instances of its universally quantified variables: when the solvers
            # cannot decide the general statement, a candidate that falsifies it is a genuine counterexample
            candidates = {f"lemma:{name}:{st_[0]}": st_[3] for st_ in steps if len(st_) > 3}
            rep["file"] = "contracts/lemmas.py"
            # vacuity guard: `False` must not follow from the hypotheses of any step
            for oname, pc, g, _, _, _ in obs:
                cr, _ = solve.check_sat(pc, timeout_ms=1200, mbqi=False)
                if cr == "unsat":
                    rep["status"] = "error"
                    rep["message"] = f"vacuous lemma step {oname}: its hypotheses are contradictory"
            rep["canary"] = "ok" if rep["status"] == "ok" else "FAILED"
        else:
            con = st["reg"].get(name)
            if con is None:
                raise ContractError(f"no contract named {name}")
            fi = st["prog"].lookup(getattr(con, "source", None) or name.split("$")[0])  # `f$variant`: second contract
            if fi is None:
                raise OutsideSubset(f"drift: {name} no longer exists in the program")
            rep["file"], rep["line"], rep["source_hash"] = fi.file, fi.line, fi.source_hash()
            eng = Engine(st["prog"], st["reg"], st["ftypes"])
            eng.expected_cache_keys = st.get("cache_keys")
            obl, info = eng.verify(con)
            rep["paths"] = info["paths"]
            rep["notes"] = list(eng.notes)
            r, _ = solve.check_sat(eng.cover_pc, timeout_ms=2000, mbqi=False)
            rep["cover"] = r
            if r == "unsat":
                rep["status"] = "error"
                rep["message"] = "precondition unsatisfiable (vacuous contract)"
            if info["paths"] == 0:
                rep["status"] = "error"
                rep["message"] = "no path reaches the end of the function (vacuous)"
            obs = [(o.name, o.pc, o.goal, o.kind, o.line, o.tags) for o in obl]
            recheck = {o.name: o.heaps.get("recheck") for o in obl}
            # must-fail canary: `False` must not be provable at a normal exit
            if eng.canary_pc is not None:
                cr = solve.prove(eng.canary_pc, z3.BoolVal(False), use_cvc5=False, timeout_ms=1500)
                rep["canary"] = "ok" if cr.status != "proved" else "FAILED"
                if cr.status == "proved":
                    rep["status"] = "error"
                    rep["message"] = "canary: `False` is provable at a normal exit (inconsistent assumptions)"
        n_unknown = 0
        relevance = st.get("relevance")
        for oname, pc, goal, okind, line, tags in obs:
            # hide hypotheses the obligation does not need (sound: dropping hypotheses only
            # weakens the premise); if that is not enough the full path condition is used
            # facts tagged `definition:*` (Skolem function of a proven exists-unique statement) may not be
            # used by the obligations that justify the definition (no circularity)
            if kind == "fn" and getattr(con, "uses_definitions", None) is not None and tags:
                clause = re.sub(r"@\d+$", "", oname).split(":")[-1]
                if clause not in con.uses_definitions:
                    idx = [i for i in range(len(pc)) if not str(tags.get(i, "")).startswith("definition:")]
                    tags = {new: tags[old] for new, old in enumerate(idx) if old in tags}
                    pc = [pc[i] for i in idx]
            full_pc = pc
            keep = relevance(oname, con if kind == "fn" else None) if relevance else None
            if keep is not None and tags:
                pc = [f for i, f in enumerate(full_pc) if (i not in tags) or keep(tags[i])]
                if len(pc) < len(full_pc):
                    if os.environ.get("PYVC_DUMP") and os.environ["PYVC_DUMP"] in oname:
                        os.makedirs("/tmp/pyvc_dump", exist_ok=True)
                        with open("/tmp/pyvc_dump/" + re.sub(r"[^A-Za-z0-9_.-]", "_", oname)[:150] + "_reduced.smt2", "w") as f:
                            f.write(solve.to_smt2(pc, z3.Not(goal)))
                    r0 = solve.prove(pc, goal, use_cvc5=False, timeout_ms=min(timeout_ms or 10 ** 9, 8000))
                    if r0.status == "proved":
                        rep["obligations"].append({
                            "name": oname, "key": strip_line(oname), "kind": okind, "line": line, "status": "proved",
                            "solver": r0.solver, "seconds": round(r0.seconds, 3), "reason": "", "model": "",
                            "hypotheses": f"{len(pc)}/{len(full_pc)}"})
                        continue
                    rep["notes"].append(f"reduced hypotheses not enough for {oname} ({r0.status})")
                pc = full_pc
            # adaptive budget: once two obligations of a function are undecided the rest of
            # that function is most likely hit by the same cause; do not spend the full
            # budget (z3 + cvc5) on each of them.  On a tree where everything discharges this
            # never triggers.
            if n_unknown >= 2:
                res = solve.prove(pc, goal, use_cvc5=False, timeout_ms=min(timeout_ms or 10 ** 9, 3000))
            else:
                res = solve.prove(pc, goal, timeout_ms=timeout_ms)
            if res.status == "unknown" and kind == "lemma" and candidates.get(oname):
                import z3 as _z3
                whole = _z3.And(*pc, _z3.Not(goal)) if pc else _z3.Not(goal)
                for cand in candidates[oname]:
                    inst = _z3.simplify(_z3.substitute(whole, *[(var, _z3.IntVal(val)) for var, val in cand]))
                    if _z3.is_true(inst):      # evaluates to true: hypotheses hold and the goal is false there
                        res = solve.Result("refuted", "z3-ground-instance", res.seconds, None,
                                           "falsified by the ground instance " + ", ".join(f"{v}={x}" for v, x in cand))
                        break
            if res.status == "unknown":
                n_unknown += 1
            dump = os.environ.get("PYVC_DUMP")
            if dump and dump in oname:
                import z3 as _z3
                os.makedirs("/tmp/pyvc_dump", exist_ok=True)
                fn = "/tmp/pyvc_dump/" + re.sub(r"[^A-Za-z0-9_.-]", "_", oname)[:150] + f"_{len(rep['obligations'])}.smt2"
                with open(fn, "w") as f:
                    f.write(solve.to_smt2(pc, _z3.Not(goal)))
            entry = {
                "name": oname, "key": strip_line(oname), "kind": okind, "line": line, "status": res.status,
                "solver": res.solver, "seconds": round(res.seconds, 3), "reason": res.reason,
                "model": _model_text(res.model) if res.status == "refuted" else "",
            }
            if res.status == "refuted" and res.model is not None and kind == "fn" and con.pure:
                try:
                    entry.update(_replay(res.model, eng, con, fi, st, oname, okind, recheck.get(oname)))
                except Exception as e:  # noqa: BLE001  (replay is best effort, never a verdict by itself)
                    entry["replay_error"] = f"{type(e).__name__}: {e}"
            rep["obligations"].append(entry)
    except OutsideSubset as e:
        rep["status"] = "drift"
        rep["message"] = str(e)
    except ContractError as e:
        rep["status"] = "error"
        rep["message"] = str(e)
    except Exception as e:  # engine bug: never a violation
        rep["status"] = "error"
        rep["message"] = f"{type(e).__name__}: {e}\n{traceback.format_exc()}"
    rep["seconds"] = round(time.time() - t0, 3)
    rep["solver_stats"] = dict(solve.STATS)
    return rep


def _replay(model, eng, con, fi, st, oname, okind, recheck):
    """decode the counter-model, run the real function on it, and evaluate the violated
    clause with what the real code did"""
    import z3
    from . import cex
    from .engine import Ctx
    from .values import Val, INT, BOOL, VNONE
    data = cex.decode(model, eng.h0, eng.args0, st["ftypes"], st["prog"])
    real = cex.run_real(fi.file, con.name, fi.kind, data)
    out = {"counterexample": data, "real_code": real, "confirmed": None}
    part = oname.split(":")[1] if ":" in oname else ""
    if part == "ensures" and recheck is not None and real.get("status") == "returned":
        contract, h0, hfin, args, nm = recheck
        if "bool" in real:
            v = Val(BOOL, z3.BoolVal(real["bool"]))
        elif "int" in real:
            v = Val(INT, z3.IntVal(real["int"]))
        else:
            v = None
        if v is not None:
            clause = dict(contract.ensures(Ctx(None, h0, hfin, args, v)))[nm]
            val = model.eval(clause, model_completion=True)
            out["confirmed"] = bool(z3.is_false(val))
            out["clause_value_with_real_result"] = str(val)
    elif part == "ensures" and real.get("status") == "raised":
        out["confirmed"] = True
        out["note"] = "the real code raised where the contract promises a result"
    elif part == "raises-only-when":
        out["confirmed"] = real.get("status") == "raised"
    elif part == "no-raise-cond":
        out["confirmed"] = real.get("status") == "returned"
    return out


def _worker(args):
    item, timeout_ms = args
    return verify_item(item, timeout_ms)


def run_items(items, jobs=None, timeout_ms=None):
    jobs = jobs or min(16, os.cpu_count() or 4)
    if jobs <= 1 or len(items) <= 1:
        return [verify_item(i, timeout_ms) for i in items]
    ctx = mp.get_context("fork")
    with ctx.Pool(min(jobs, len(items)), maxtasksperchild=1) as pool:
        return pool.map(_worker, [(i, timeout_ms) for i in items], chunksize=1)


def main(argv=None):
    import argparse
    if os.environ.get("PYTHONHASHSEED") != "0":
        # reproducible solver input (set iteration order)
        os.environ["PYTHONHASHSEED"] = "0"
        os.execv(sys.executable, [sys.executable, "-m", "pyvc.run"] + list(sys.argv[1:] if argv is None else argv))
    ap = argparse.ArgumentParser()
    ap.add_argument("names", nargs="*")
    ap.add_argument("-v", action="store_true")
    ap.add_argument("-j", type=int, default=None)
    a = ap.parse_args(argv)
    st = _setup()
    if a.names:
        items = [n if ":" in n else ("lemma:" + n if n in st["lemmas"] else "fn:" + n) for n in a.names]
    else:
        items = ["fn:" + n for n, c in st["reg"].items() if not (c.abstract or c.trusted)]
        items += ["lemma:" + n for n in st["lemmas"]]
    t0 = time.time()
    reps = run_items(items, a.j)
    bad = 0
    tot = 0
    for r in reps:
        print(f"{r['status']:6s} {r['item']:60s} paths={r['paths']} obligations={len(r['obligations'])} "
              f"{r['seconds']:.2f}s {r['message'].splitlines()[0] if r['message'] else ''}")
        if r["status"] != "ok":
            bad += 1
            if a.v:
                print(r["message"])
        if os.environ.get("PYVC_NOTES"):
            for n in r.get("notes", []):
                print("   note:", n)
        for o in r["obligations"]:
            tot += 1
            if a.v or o["status"] != "proved" or o["seconds"] > 3:
                print(f"   {o['status']:8s} {o['solver']:7s} {o['seconds']:6.2f}s  {o['name']}  {o['reason']}")
            if o["status"] != "proved":
                bad += 1
                if a.v and o["model"]:
                    print(o["model"])
    print(f"total obligations {tot}; not proved / problems {bad}; wall {time.time() - t0:.1f}s")


if __name__ == "__main__":
    main()
